"""C13 generator: signed integers Int<N> (add/sub/neg/mul/squares/sign/resize/From), all routes.
Inputs are built from the answer: sums and differences at MIN-1/MIN/MAX/MAX+1, products at
+-2^(BITS-1) and at 2^BITS (lo part fits, hi part non-zero), squares at 2^(BITS/2), magnitudes
2^(BITS-1) with either sign, negative zero, sign-extension patterns for resize/From."""
import os
from .common import Case
from .gen import *

NS = [1, 2, 3, 4, 8, 16]
WIDE = [(1, 1), (2, 2), (3, 3), (4, 4), (8, 8), (16, 16), (1, 2), (2, 1), (1, 3), (3, 1), (2, 3), (3, 2),
        (2, 4), (4, 2), (3, 4), (4, 3), (1, 4), (4, 1), (1, 8), (8, 1), (4, 8), (8, 4), (3, 8), (8, 3),
        (2, 8), (8, 2)]

W4 = ['', '_vr', '_rv', '_rr']
ADD_ROUTES = {
    'sint.checked_add': ['', '.trait'] + ['.wrapper' + s for s in W4] + ['.wrapper_assign', '.wrapper_assign_ref'],
    'sint.overflowing_add': [''],
    'sint.wrapping_add': ['', '.trait'] + ['.wrapper' + s for s in W4] + ['.wrapper_assign', '.wrapper_assign_ref'],
    'sint.add': ['', '.ref', '.assign', '.assign_ref'],
}
SUB_ROUTES = {
    'sint.checked_sub': [''] + ['.wrapper' + s for s in W4] + ['.wrapper_assign', '.wrapper_assign_ref'],
    'sint.wrapping_sub': [''] + ['.wrapper' + s for s in W4] + ['.wrapper_assign', '.wrapper_assign_ref'],
    'sint.sub': ['', '.ref'],
}
MUL_ROUTES = {
    'sint.split_mul': [''], 'sint.checked_mul': [''], 'sint.mul': ['', '.vr', '.rv', '.rr'],
}
MUL_SAME_ROUTES = ['.wrapper' + s for s in W4] + ['.wrapper_assign', '.wrapper_assign_ref']
MULU_ROUTES = {
    'sint.split_mul_uint': [''], 'sint.split_mul_uint_right': [''], 'sint.checked_mul_uint': [''],
    'sint.checked_mul_uint_right': [''], 'sint.mul_uint': ['', '.vr', '.rv', '.rr'],
}
UNARY = ['sint.overflowing_neg', 'sint.wrapping_neg', 'sint.checked_neg', 'sint.abs_sign', 'sint.abs',
         'sint.is_negative', 'sint.is_positive', 'sint.is_min', 'sint.is_max', 'sint.checked_square',
         'sint.wrapping_square', 'sint.saturating_square', 'sint.widening_square']


def M(n): return 1 << (64 * n)
def smin(n): return -(M(n) >> 1)
def smax(n): return (M(n) >> 1) - 1
def enc(x, n): return to_limbs(x % M(n), n)
def clamp(x, n): return max(smin(n), min(smax(n), x))


def specials(n):
    h = 1 << (32 * n)            # 2^(BITS/2)
    out = [smin(n), smin(n) + 1, smin(n) + 2, -1, 0, 1, 2, -2, smax(n), smax(n) - 1, h, -h, h - 1, -(h - 1),
           h + 1, -(h + 1), smax(n) >> 1, smin(n) >> 1, (smin(n) >> 1) - 1, (smax(n) >> 1) + 1,
           1 << 63, -(1 << 63), (1 << 63) - 1, (1 << 64) - 1, -(1 << 64), 1 << 64]
    return [clamp(x, n) for x in out]


def sval(rng, n):
    """A signed value of n limbs: boundary values, sign-bit patterns, adversarial limbs."""
    k = rng.random()
    if k < 0.40:
        return rng.choice(specials(n))
    if k < 0.50:
        # magnitude 2^j (+-1) with either sign
        j = rng.randrange(0, 64 * n)
        x = (1 << j) + rng.choice([-1, 0, 0, 1])
        return clamp(rng.choice([-1, 1]) * x, n)
    if k < 0.58:
        # random magnitude of a chosen bit length
        j = rng.randrange(1, 64 * n)
        return clamp(rng.choice([-1, 1]) * rng.getrandbits(j), n)
    v = value(rng, n)
    return v - M(n) if v >= M(n) >> 1 else v


def near_s(rng, x, n):
    return clamp(x + rng.choice([-2, -1, -1, 0, 0, 0, 1, 1, 2]), n)


def add_pair(rng, n):
    a = sval(rng, n)
    k = rng.random()
    if k < 0.22: b = near_s(rng, smax(n) - a, n)          # a + b around MAX / MAX+1
    elif k < 0.44: b = near_s(rng, smin(n) - a, n)        # a + b around MIN / MIN-1
    elif k < 0.52: b = near_s(rng, -a, n)                 # a = -b
    elif k < 0.58: b = near_s(rng, a, n)
    else: b = sval(rng, n)
    return a, b


def sub_pair(rng, n):
    a = sval(rng, n)
    k = rng.random()
    if k < 0.22: b = near_s(rng, a - smax(n), n)          # a - b around MAX
    elif k < 0.44: b = near_s(rng, a - smin(n), n)        # a - b around MIN
    elif k < 0.52: b = near_s(rng, a, n)
    elif k < 0.58: b = near_s(rng, -a, n)
    else: b = sval(rng, n)
    return a, b


def mul_pair(rng, l, r, unsigned_rhs=False, target_n=None):
    """(a, b): a of l limbs signed, b of r limbs (signed or unsigned); product near +-2^(BITS-1) or
    2^BITS of the target width (default: l)."""
    t = l if target_n is None else target_n
    lo_b, hi_b = (0, M(r) - 1) if unsigned_rhs else (smin(r), smax(r))
    k = rng.random()
    if k < 0.25:
        a = sval(rng, l)
    elif k < 0.55:
        j = rng.randrange(0, 64 * l)
        a = clamp(rng.choice([-1, 1]) * ((1 << j) + rng.choice([-1, 0, 0, 1])), l)
    else:
        j = rng.randrange(1, 64 * l)
        a = clamp(rng.choice([-1, 1]) * (rng.getrandbits(j) | 1), l)
    k = rng.random()
    if a != 0 and k < 0.75:
        T = rng.choice([M(t) >> 1, M(t) >> 1, M(t) >> 1, M(t), (M(t) >> 1) - 1, M(t) + (M(t) >> 2)])
        b = T // abs(a) + rng.choice([-1, 0, 0, 0, 1])
        if rng.random() < 0.5 and not unsigned_rhs:
            b = -b
        if rng.random() < 0.15 and T % abs(a) == 0:
            b = (T // abs(a)) * (1 if unsigned_rhs or rng.random() < 0.5 else -1)
        b = max(lo_b, min(hi_b, b))
    elif unsigned_rhs:
        b = value(rng, r)
    else:
        b = sval(rng, r)
    return a, b


def gen(tier, rng):
    scale = 1 if tier == 'quick' else 10
    cases = []
    add = cases.append
    for n in NS:
        reps = (26 if n <= 4 else 14) * scale
        tag = ('n%d' % n,)
        # ---- systematic boundary grid (every width): all pairs of the core special values
        core = [smin(n), smin(n) + 1, -1, 0, 1, smax(n) - 1, smax(n), 1 << (32 * n), -(1 << (32 * n))]
        for x in core:
            for y in core:
                A, Bv = enc(x, n), enc(y, n)
                add(Case('sint.checked_add', [A, Bv], tags=tag)); add(Case('sint.overflowing_add', [A, Bv], tags=tag))
                add(Case('sint.checked_sub', [A, Bv], tags=tag)); add(Case('sint.wrapping_sub', [A, Bv], tags=tag))
                add(Case('sint.checked_mul', [A, Bv], tags=tag)); add(Case('sint.split_mul', [A, Bv], tags=tag))
                add(Case('sint.add', [A, Bv], dbg=True, tags=tag)); add(Case('sint.sub', [A, Bv], dbg=True, tags=tag))
                add(Case('sint.mul', [A, Bv], dbg=True, tags=tag))
        for x in specials(n):
            for op in UNARY:
                add(Case(op, [enc(x, n)], tags=tag))
            for c in (0, 1):
                add(Case('sint.wrapping_neg_if', [enc(x, n), c], tags=tag))
        # new_from_abs_sign: magnitudes around 2^(BITS-1), negative zero
        H = M(n) >> 1
        for m in [0, 1, 2, H - 2, H - 1, H, H + 1, H + 2, M(n) - 1, M(n) - 2, 1 << (32 * n), H >> 1, H + (H >> 1)]:
            for c in (0, 1):
                add(Case('sint.new_from_abs_sign', [to_limbs(m, n), c], tags=tag))
        # ---- randomized structured cases
        for _ in range(reps):
            a, b = add_pair(rng, n)
            for mop, forms in ADD_ROUTES.items():
                for f in forms:
                    add(Case(mop + f, [enc(a, n), enc(b, n)], mop=mop, dbg=True, tags=tag))
            a, b = sub_pair(rng, n)
            for mop, forms in SUB_ROUTES.items():
                for f in forms:
                    add(Case(mop + f, [enc(a, n), enc(b, n)], mop=mop, dbg=True, tags=tag))
            a, b = mul_pair(rng, n, n)
            for f in MUL_SAME_ROUTES:
                add(Case('sint.checked_mul' + f, [enc(a, n), enc(b, n)], mop='sint.checked_mul', dbg=True, tags=tag))
            x = sval(rng, n)
            for op in UNARY:
                add(Case(op, [enc(x, n)], tags=tag))
            add(Case('sint.wrapping_neg_if', [enc(x, n), rng.randrange(2)], tags=tag))
            m = rng.choice([value(rng, n), H + rng.choice([-1, 0, 1]), rng.getrandbits(64 * n)]) % M(n)
            add(Case('sint.new_from_abs_sign', [to_limbs(m, n), rng.randrange(2)], tags=tag))
            # Checked<Int> expressions: shape 0 (a op1 b) op2 c, shape 1 a op2 (b op1 c); the inner pair is built at the
            # overflow boundary of op1, the outer operand at the boundary of op2 or absorbing (0, 1, -1: the outer
            # operation itself stays in range, so a lost inner none would go unnoticed otherwise)
            for shape in (0, 1):
                op1, op2 = rng.randrange(3), rng.randrange(3)
                if op1 == 2: u, v = mul_pair(rng, n, n)
                elif op1 == 1: u, v = sub_pair(rng, n)
                else: u, v = add_pair(rng, n)
                r1 = u * v if op1 == 2 else (u - v if op1 == 1 else u + v)
                r1 = clamp(r1, n)
                kk = rng.random()
                if kk < 0.25: w = near_s(rng, (smax(n) - r1) if op2 == 0 else (r1 - smax(n)), n)
                elif kk < 0.5: w = near_s(rng, (smin(n) - r1) if op2 == 0 else (r1 - smin(n)), n)
                elif kk < 0.8: w = rng.choice([0, 0, 1, -1])
                else: w = sval(rng, n)
                a, b, c = (u, v, w) if shape == 0 else (w, u, v)
                add(Case('sint.checked_expr', [enc(a, n), enc(b, n), enc(c, n), op1, op2, rng.randrange(16), shape],
                         dbg=True, tags=tag))
                # inner operation certainly overflows, outer operand harmless: the result must still be none
                op1, op2 = rng.randrange(3), rng.randrange(3)
                k = rng.choice([0, 1, 2, rng.getrandbits(16)])
                if op1 == 0: u, v = rng.choice([(smax(n) - k, k + 1), (smin(n) + k, -k - 1)])
                elif op1 == 1: u, v = rng.choice([(smin(n) + k, k + 1), (smax(n) - k, -k - 1), (0, smin(n))])
                else: u, v = rng.choice([(smax(n) - k, 2), (smin(n), -1), (1 << (32 * n), 1 << (32 * n - 1)), (smin(n) + k, 2)])
                w = rng.choice([0, 0, 1, -1, 2])
                a, b, c = (u, v, w) if shape == 0 else (w, u, v)
                add(Case('sint.checked_expr', [enc(a, n), enc(b, n), enc(c, n), op1, op2, rng.randrange(16), shape],
                         dbg=True, tags=tag + ('inner_ovf',)))
    # ---- mixed-width multiplication: Int<L> x Int<R>, Int<L> x Uint<R>
    for l in NS:
        for r in NS:
            reps = (7 if max(l, r) <= 4 else 4) * scale
            tag = ('l%d' % l, 'r%d' % r)
            for _ in range(reps):
                a, b = mul_pair(rng, l, r)
                for mop, forms in MUL_ROUTES.items():
                    for f in forms:
                        add(Case(mop + f, [enc(a, l), enc(b, r)], mop=mop, dbg=True, tags=tag))
                a, b = mul_pair(rng, l, r, unsigned_rhs=True)
                for mop in ['sint.split_mul_uint', 'sint.split_mul_uint_right', 'sint.checked_mul_uint']:
                    add(Case(mop, [enc(a, l), to_limbs(b, r)], tags=tag))
                for f in MULU_ROUTES['sint.mul_uint']:
                    add(Case('sint.mul_uint' + f, [enc(a, l), to_limbs(b, r)], mop='sint.mul_uint', dbg=True, tags=tag))
                # result stored at the width of the unsigned factor
                a, b = mul_pair(rng, l, r, unsigned_rhs=True, target_n=r)
                add(Case('sint.checked_mul_uint_right', [enc(a, l), to_limbs(b, r)], tags=tag))
                add(Case('sint.split_mul_uint_right', [enc(a, l), to_limbs(b, r)], tags=tag))
    # ---- widening products (the ConcatMixed width table)
    for (l, r) in WIDE:
        for _ in range(6 * scale):
            a, b = rng.choice(specials(l)) if rng.random() < 0.5 else sval(rng, l), \
                   rng.choice(specials(r)) if rng.random() < 0.5 else sval(rng, r)
            add(Case('sint.widening_mul', [enc(a, l), enc(b, r)]))
            bu = rng.choice([0, 1, M(r) - 1, M(r) >> 1, (M(r) >> 1) - 1, value(rng, r)])
            add(Case('sint.widening_mul_uint', [enc(a, l), to_limbs(bu, r)]))
        for a in (smin(l), smax(l), -1):
            for b in (smin(r), smax(r), -1):
                add(Case('sint.widening_mul', [enc(a, l), enc(b, r)]))
            for bu in (M(r) - 1, M(r) >> 1, 1):
                add(Case('sint.widening_mul_uint', [enc(a, l), to_limbs(bu, r)]))
    # ---- resize: every (L, T); sign extension, truncation that flips the sign
    for l in NS:
        for t in NS:
            vals = [smin(l), smax(l), -1, 0, 1, smin(l) + 1]
            m = min(l, t)
            vals += [clamp(x, l) for x in [smin(m), smax(m), smin(m) - 1, smax(m) + 1, -(M(m)), M(m) - 1, M(m) >> 1]]
            vals += [sval(rng, l) for _ in range(3 * scale)]
            for x in vals:
                for f in ['', '.from_ref']:
                    add(Case('sint.resize' + f, [enc(x, l), t], mop='sint.resize', dbg=True))
    # ---- From primitives
    for bits, name in [(8, 'i8'), (16, 'i16'), (32, 'i32'), (64, 'i64')]:
        pats = [0, 1, 2, (1 << bits) - 1, (1 << bits) - 2, 1 << (bits - 1), (1 << (bits - 1)) - 1, (1 << (bits - 1)) + 1]
        pats += [rng.getrandbits(bits) for _ in range(4 * scale)]
        for t in NS:
            for p in pats:
                for f in ['', '.trait']:
                    add(Case('sint.from_%s%s' % (name, f), [p, t], mop='sint.from_' + name, dbg=True))
    pats = [0, 1, (1 << 128) - 1, 1 << 127, (1 << 127) - 1, (1 << 127) + 1, (1 << 64) - 1, 1 << 64, 1 << 63, (1 << 63) - 1,
            (1 << 128) - (1 << 63), (1 << 128) - (1 << 63) - 1, (1 << 128) - (1 << 64), (1 << 128) - (1 << 64) - 1]
    pats += [rng.getrandbits(128) for _ in range(4 * scale)] + [value(rng, 2) for _ in range(6 * scale)]
    for t in NS:
        for p in pats:
            v = p - (1 << 128) if p >= 1 << 127 else p
            add(Case('sint.from_i128', [to_limbs(p, 2), t], dbg=True))
            add(Case('sint.from_i128_trait', [to_limbs(p, 2), t], dbg=True))
    # ---- associated constants
    for n in NS:
        for f in ['', '.masks', '.traits']:
            add(Case('sint.consts' + f, [n], mop='sint.consts'))
    # ---- to primitives (I64 -> i64, I128 -> i128)
    for n in (1, 2):
        for x in specials(n) + [sval(rng, n) for _ in range(10 * scale)]:
            add(Case('sint.to_prim', [enc(x, n)]))
    return cases
