"""C20 generator: integer square roots (Uint<N>, BoxedUint; ct / vartime / wrapping / checked / trait).

Inputs are built from the answer.  For roots t at every magnitude (2^j, 2^j +- 1, all-ones, sqrt(2)*2^j,
limb alphabet, random) the radicands t^2 - 1, t^2, t^2 + 1, t^2 + t (n / t = t + 1), t^2 + 2t = (t+1)^2 - 1
(Newton oscillates between t and t + 1 there, so the final min(x_n, x_{n+1}) decides, in both parities of the
round counter); every bit length (the initial estimate 2^ceil(bits/2) changes at each power of two; even and
odd lengths behave differently); 0 (the masked zero divisor), 1, 2, 3; 2^BITS - 1, 2^(BITS-1) +- 1; and the
radicands that need the MOST Newton rounds, found by simulating the iteration (4^k + d: the estimate starts at
exactly twice the root).  Simulation shows that widths just below a power of two (7, 13, 14, 15 limbs) have
inputs that need floor(log2 BITS) + 1 rounds, i.e. all but one of the rounds the code performs."""
from math import isqrt
from .common import Case
from .gen import *

UINT_NS = [1, 2, 3, 4, 5, 6, 7, 8, 12, 16]
BOXED_NS = list(range(1, 21))

UINT_SQRT = ['', '.wrapping', '.trait', '.generic', '.resquare']
UINT_SQRT_VT = ['', '.wrapping', '.trait', '.generic']
UINT_CHK = ['', '.copy']
BOXED_SQRT = ['', '.wrapping', '.trait', '.generic', '.resquare', '.widened']
BOXED_SQRT_VT = ['', '.wrapping', '.trait', '.generic']
BOXED_CHK = ['', '.clone']


def newton_trace(n, rounds):
    """x_0 .. x_rounds of the constant-time algorithm."""
    x = 1 << ((n.bit_length() + 1) >> 1)
    xs = [x]
    for _ in range(rounds):
        x = 0 if x == 0 else (x + n // x) >> 1
        xs.append(x)
    return xs


def rounds_needed(n):
    """Smallest R such that min(x_{r-1}, x_r) is the root for every r >= R."""
    s = isqrt(n)
    xs = newton_trace(n, 24)
    need = 1
    for r in range(1, 25):
        if min(xs[r - 1], xs[r]) != s:
            need = r + 1
    return need


def near_square(rng, t, M, k=None):
    """radicands next to t^2 (all of them, or the three essential ones plus k random others)"""
    must = [t * t - 1, t * t, t * t + 2 * t]
    other = [t * t - 2, t * t + 1, t * t + 2, t * t + t - 1, t * t + t, t * t + t + 1, t * t + 2 * t - 1,
             t * t + 2 * t + 1, t * t + 2 * t + 2]
    c = must + (other if k is None else rng.sample(other, k))
    return [v for v in c if 0 <= v < M]


def roots(rng, n, count):
    """Root candidates up to 2^(BITS/2) - 1 at every magnitude."""
    hb = 32 * n
    top = (1 << hb) - 1
    out = []
    for _ in range(count):
        k = rng.random()
        j = rng.randrange(0, hb)
        if k < 0.22:
            t = (1 << j) + rng.choice([-1, 0, 1])
        elif k < 0.36:
            t = rng.getrandbits(j + 1) | (1 << j)
        elif k < 0.50:
            t = (1 << (j + 1)) - 1 - rng.choice([0, 0, 1, 2, rng.getrandbits(max(1, j // 2))])
        elif k < 0.64:
            t = value(rng, max(1, (n + 1) // 2)) & top          # adversarial limbs
        elif k < 0.74:
            t = isqrt(rng.getrandbits(2 * (j + 1)))
        elif k < 0.88:
            t = isqrt(1 << (2 * j + 1)) + rng.choice([-1, 0, 1, 2])  # sqrt(2) * 2^j: radicand next to 2^odd
        else:
            t = (1 << j) + (1 << rng.randrange(0, j + 1)) * rng.choice([1, -1])
        out.append(max(0, min(top, t)))
    return out


def radicands(rng, n, count):
    M = 1 << (64 * n)
    bits = 64 * n
    hb = 32 * n
    top = (1 << hb) - 1
    vals = [0, 1, 2, 3, 4, 8, 9, 15, 16, 17, M - 1, M - 2, (M >> 1) - 1, M >> 1, (M >> 1) + 1,
            (M >> 2) - 1, M >> 2, (M >> 2) + 1]
    for t in [top, top - 1, 1 << (hb - 1), (1 << (hb - 1)) + 1, (1 << (hb - 1)) - 1]:
        vals += near_square(rng, t, M)
    for t in roots(rng, n, count):
        vals += near_square(rng, t, M, 2)
    # bit lengths: 2^k - 1, 2^k, 2^k + 1, and a random value of that length
    nk = min(bits, 3 * count // 2)
    ks = set(rng.sample(range(bits), nk)) | {0, 1, 2, bits - 1, bits - 2, bits - 3, hb - 1, hb, hb + 1, 63, 64, 65}
    for k in sorted(k for k in ks if 0 <= k < bits):
        c = [(1 << k) - 1, 1 << k, (1 << k) + 1, (1 << k) | rng.getrandbits(k)]
        vals += rng.sample(c, 2)
    for _ in range(count // 3):
        vals.append(value(rng, n))
    return vals


def slow_radicands(rng, n, tries, keep):
    """Radicands needing the largest number of Newton rounds."""
    bits = 64 * n
    M = 1 << bits
    cand = set()
    for b in range(max(3, bits - 9), bits + 1):
        lo = 1 << (b - 1)
        cand.update([lo, lo + 1, lo + 2, (1 << b) - 1])
        k = (b - 1) // 2
        for _ in range(tries):
            # 4^k + d : root 2^k (or just above), the estimate starts at twice the root
            cand.add((1 << (2 * k)) + rng.getrandbits(rng.randrange(1, k + 3)))
            # (r + 1)^2 - d for small d: the last approach to the root is as slow as possible
            r = isqrt(lo | rng.getrandbits(b - 1))
            cand.add((r + 1) * (r + 1) - rng.choice([1, 2, 3, rng.randrange(1, 4096)]))
            cand.add(lo + rng.getrandbits(rng.randrange(1, b)))
    cand = [v for v in cand if 0 < v < M]
    cand.sort(key=lambda v: (-rounds_needed(v), v))
    return cand[:keep]


def parity_cases(rng, n, per):
    """Oscillating radicands (t+1)^2 - 1 chosen so that the value the algorithm holds after its last round is
    root + 1 (so returning x instead of min(x_prev, x) fails) and others where x_prev is root + 1."""
    bits = 64 * n
    rounds = bits.bit_length() - 1 + 2
    M = 1 << bits
    last_hi, prev_hi = [], []
    tries = 0
    while (len(last_hi) < per or len(prev_hi) < per) and tries < 400 * per:
        tries += 1
        j = rng.randrange(1, 32 * n)
        t = (rng.getrandbits(j) | (1 << j)) if rng.random() < 0.7 else (1 << j) + rng.choice([0, 1, -1])
        v = t * t + 2 * t
        if not 0 < v < M:
            continue
        xs = newton_trace(v, rounds)
        s = isqrt(v)
        if xs[rounds] == s + 1 and len(last_hi) < per:
            last_hi.append(v)
        elif xs[rounds - 1] == s + 1 and len(prev_hi) < per:
            prev_hi.append(v)
    return last_hi + prev_hi


def gen(tier, rng):
    scale = 1 if tier == 'quick' else 10
    cases = []
    add = cases.append

    def emit_uint(v, n, full):
        a = to_limbs(v, n)
        for f in (UINT_SQRT if full else ['']):
            add(Case('uint.sqrt' + f, [a], mop='uint.sqrt', dbg=full))
        for f in (UINT_SQRT_VT if full else ['']):
            add(Case('uint.sqrt_vartime' + f, [a], mop='uint.sqrt_vartime', dbg=full))
        for f in (UINT_CHK if full else ['']):
            add(Case('uint.checked_sqrt' + f, [a], mop='uint.checked_sqrt', dbg=full))
            add(Case('uint.checked_sqrt_vartime' + f, [a], mop='uint.checked_sqrt_vartime', dbg=full))

    def emit_boxed(v, n, full):
        a = to_limbs(v, n)
        for f in (BOXED_SQRT if full else ['']):
            add(Case('boxed.sqrt' + f, [a], mop='boxed.sqrt', dbg=full))
        for f in (BOXED_SQRT_VT if full else ['']):
            add(Case('boxed.sqrt_vartime' + f, [a], mop='boxed.sqrt_vartime', dbg=full))
        for f in (BOXED_CHK if full else ['']):
            add(Case('boxed.checked_sqrt' + f, [a], mop='boxed.checked_sqrt', dbg=full))
            add(Case('boxed.checked_sqrt_vartime' + f, [a], mop='boxed.checked_sqrt_vartime', dbg=full))

    def values(n, cnt):
        # the slow and the parity-sensitive radicands first: they get every route
        special = slow_radicands(rng, n, 12 * scale + 20, 6 + 3 * scale) + parity_cases(rng, n, 3 + scale) + [0, 1, 2, 3]
        rest = radicands(rng, n, cnt)
        seen = set()
        out = []
        for i, v in enumerate(special + rest):
            if v in seen:
                continue
            seen.add(v)
            out.append((v, i < len(special) or i % 9 == 0))
        return out

    for n in UINT_NS:
        for v, full in values(n, (34 if n <= 4 else 22 if n <= 8 else 12) * scale):
            emit_uint(v, n, full)
    for n in BOXED_NS:
        for v, full in values(n, (16 if n <= 4 or n == 7 else 10 if n <= 8 or n in (13, 14, 15) else 5) * scale):
            emit_boxed(v, n, full)
    return cases
