"""C01, machine-code layer: the wrappers of ct/ are built a second time WITHOUT any instrumentation (the optimized
build a user gets: opt-level 3, no debug assertions) and every pair of secret assignments is executed under
valgrind's callgrind (dynamic binary translation of the real x86-64 machine code).  For each recording window
(ctrt::start .. ctrt::stop, i.e. exactly one call of the wrapper) callgrind dumps, per machine instruction, how often
it was executed, and per jump instruction how often it was executed / taken and where it went, and per call site how
often which function was called.  For a constant-time wrapper these profiles must be IDENTICAL for both assignments of
a pair: a secret-dependent conditional branch, early exit, loop bound or call that the backend introduced AFTER the
LLVM-IR level (cmov -> branch conversion, jump threading in the code generator) changes a count.

This complements the SanitizerCoverage layer (tools/vlib/c01.py), which sees the optimized IR's edges / gep indices /
division operands / load-store addresses of an instrumented build: the profile here is of the uninstrumented machine
code, but it is a multiset of (instruction, count) and (jump, taken/executed), not a sequence, and it does not see data
addresses or division operands.
"""
import os, re, shutil, subprocess, time
from concurrent.futures import ThreadPoolExecutor
from . import common as C

CT = os.path.join(C.ROOT, 'ct')
TARGET_MC = os.path.join(C.CACHE, 'target_ctmc')
REPO_DIR = os.path.basename(os.path.normpath(C.REPO))

def build_mc():
    t = time.time()
    env = dict(os.environ)
    env.update({'CARGO_NET_OFFLINE': 'true', 'CARGO_TARGET_DIR': TARGET_MC,
                'RUSTC_WRAPPER': os.path.join(CT, 'rustc-plain.sh')})
    env.pop('RUSTFLAGS', None)
    lock = os.path.join(CT, 'Cargo.lock')
    if not os.path.exists(lock):
        shutil.copy(os.path.join(C.REPO, 'Cargo.lock'), lock)
    tmpl = open(os.path.join(CT, 'Cargo.toml.in')).read().replace('@REPO@', C.REPO)
    ctoml = os.path.join(CT, 'Cargo.toml')
    if not os.path.exists(ctoml) or open(ctoml).read() != tmpl:
        open(ctoml, 'w').write(tmpl)
    rc, out = C.sh(['cargo', 'build', '--offline', '--release'], cwd=CT, timeout=3000, env=env)
    return rc, out, os.path.join(TARGET_MC, 'release', 'cbct'), time.time() - t

# ------------------------------------------------------------------ callgrind dump parser
_NAME = re.compile(r'\((\d+)\)(?: (.*))?$')

def _pos(tok, cur, hexa):
    """absolute ('0x..' / decimal) or, should compression be on, relative ('+n', '-n', '*') sub-position"""
    if tok == '*':
        return cur
    if tok[0] == '+':
        return cur + int(tok[1:])
    if tok[0] == '-':
        return cur - int(tok[1:])
    return int(tok, 16) if tok.startswith('0x') else int(tok)

class Profile:
    """Normalised content of one callgrind part: self cost per instruction, jumps, calls; frames that only carry
    inclusive cost (everything outside the recording window) are dropped."""
    __slots__ = ('instr', 'jumps', 'calls', 'total', 'where')
    def __init__(self):
        self.instr = {}     # addr -> executions
        self.jumps = {}     # (from_addr, to_addr, kind) -> (taken, executed)
        self.calls = {}     # (from_addr, target_addr) -> count
        self.total = 0
        self.where = {}     # addr -> (fn name, file, line)
    def key(self):
        return (self.instr, self.jumps, self.calls)

def parse_dump(path):
    names = {'fl': {}, 'fn': {}, 'ob': {}}
    def nm(kind, s):
        m = _NAME.match(s)
        if not m:
            return s
        if m.group(2) is not None:
            names[kind][m.group(1)] = m.group(2)
        return names[kind].get(m.group(1), '?')
    p = Profile()
    cur_i, cur_l = 0, 0
    fn, fil = '?', '?'
    fn_file = '?'
    pending = None          # ('call', count, target_i) | ('jump', kind, taken, executed, target_i)
    declared_total = None
    in_body = False
    for raw in open(path, errors='replace'):
        line = raw.rstrip('\n')
        if not in_body:
            if line.startswith('summary:') or line.startswith('totals:'):
                in_body = line.startswith('summary:')
            continue
        if not line:
            continue
        c0 = line[0]
        if c0.isalpha():
            k, _, v = line.partition('=')
            if k == 'totals:' or line.startswith('totals:'):
                declared_total = int(line.split()[1]); continue
            if k == 'fl':
                fil = fn_file = nm('fl', v)
            elif k in ('fi', 'fe'):
                fil = nm('fl', v)
            elif k == 'fn':
                fn = nm('fn', v); fil = fn_file
            elif k == 'ob':
                nm('ob', v)
            elif k in ('cob',):
                nm('ob', v)
            elif k in ('cfi', 'cfl', 'jfi'):
                nm('fl', v)
            elif k in ('cfn', 'jfn'):
                nm('fn', v)
            elif k == 'calls':
                f = v.split()
                pending = ('call', int(f[0]), _pos(f[1], cur_i, True))
            elif k == 'jump':
                f = v.split()
                pending = ('jump', 'j', int(f[0]), int(f[0]), _pos(f[1], cur_i, True))
            elif k == 'jcnd':
                f = v.split()
                a, b = f[0].split('/')
                pending = ('jump', 'c', int(a), int(b), _pos(f[1], cur_i, True))
            continue
        # a position line: "<instr> <line> [cost]"
        f = line.split()
        cur_i = _pos(f[0], cur_i, True)
        if len(f) > 1:
            cur_l = _pos(f[1], cur_l, False)
        if pending is not None:
            if pending[0] == 'call':
                kk = (cur_i, pending[2])
                p.calls[kk] = p.calls.get(kk, 0) + pending[1]
            else:
                kk = (cur_i, pending[4], pending[1])
                o = p.jumps.get(kk, (0, 0))
                p.jumps[kk] = (o[0] + pending[2], o[1] + pending[3])
                p.where.setdefault(cur_i, (fn, fil, cur_l))
            pending = None
            continue        # the cost on a calls= line is inclusive: ignored
        cost = int(f[2]) if len(f) > 2 else 0
        if cost:
            p.instr[cur_i] = p.instr.get(cur_i, 0) + cost
            p.total += cost
            p.where.setdefault(cur_i, (fn, fil, cur_l))
    # calls / jumps recorded in frames without self cost lie outside the window: drop them
    live = set(p.instr)
    p.calls = {k: v for k, v in p.calls.items() if k[0] in live}
    p.jumps = {k: v for k, v in p.jumps.items() if k[0] in live}
    return p, declared_total

def shorten(path):
    path = path.replace('/' + REPO_DIR + '/src/', '/repo/src/') if REPO_DIR != 'repo' else path
    i = path.find('/src/')
    if i >= 0:
        head = path[:i]
        return head.rsplit('/', 1)[-1] + path[i:]
    return path

def _site(p, a):
    w = p.where.get(a)
    if not w:
        return ''
    return '%s (%s:%d)' % (re.sub(r'::h[0-9a-f]{16}$', '', w[0]), shorten(w[1]), w[2])

def differences(p1, p2):
    """Differing records of two profiles.  Returns (decisions, others):
       decisions = conditional jumps executed equally often in both runs but taken a different number of times (a decision
                   that depends on the secret operands), as (addr, description, site);
       others    = every other differing record (jumps executed a different number of times: data-dependent trip counts and
                   everything downstream of a decision; instruction and call counts), same shape."""
    dec, oth = [], []
    for k in set(p1.jumps) | set(p2.jumps):
        j1, j2 = p1.jumps.get(k), p2.jumps.get(k)
        if j1 == j2:
            continue
        site = _site(p1, k[0]) or _site(p2, k[0])
        if k[2] == 'c':
            # executions of the jump instruction itself (a not-taken-only jump has no jcnd record: use the instruction count)
            e1 = p1.instr.get(k[0], 0); e2 = p2.instr.get(k[0], 0)
            d = 'conditional jump to 0x%x taken %s of %d vs %s of %d executions' % (
                k[1], (j1 or (0, 0))[0], e1, (j2 or (0, 0))[0], e2)
            (dec if e1 == e2 else oth).append((k[0], d, site))
        else:
            oth.append((k[0], 'jump to 0x%x executed %s vs %s times' % (k[1], (j1 or (0, 0))[1], (j2 or (0, 0))[1]), site))
    for k in set(p1.calls) | set(p2.calls):
        if p1.calls.get(k) != p2.calls.get(k):
            oth.append((k[0], 'call of 0x%x made %s vs %s times' % (k[1], p1.calls.get(k), p2.calls.get(k)),
                        _site(p1, k[0]) or _site(p2, k[0])))
    if not dec and not oth:
        for a in set(p1.instr) | set(p2.instr):
            if p1.instr.get(a, 0) != p2.instr.get(a, 0):
                oth.append((a, 'instruction executed %d vs %d times' % (p1.instr.get(a, 0), p2.instr.get(a, 0)),
                            _site(p1, a) or _site(p2, a)))
    dec.sort(); oth.sort()
    return dec, oth

# ------------------------------------------------------------------ running
VALGRIND = ['valgrind', '--tool=callgrind', '--dump-instr=yes', '--collect-jumps=yes', '--compress-strings=no',
            '--compress-pos=no', "--zero-before=ctrt::start*", "--dump-before=ctrt::stop*", '-q']

def run_mc(exe, pairs, tag='mc', timeout=3000):
    """pairs: dicts with id, op, a1, a2.  Returns {id: ('same', instructions) | ('diff', info) | ('error', text)}."""
    if not pairs:
        return {}
    root = os.path.join(C.WORK, tag)
    shutil.rmtree(root, ignore_errors=True)
    os.makedirs(root)
    nshard = min(C.NCPU, max(1, len(pairs) // 8))
    shards = [pairs[i::nshard] for i in range(nshard)]
    env = dict(os.environ); env['LD_BIND_NOW'] = '1'
    def work(k):
        shard = shards[k]
        d = os.path.join(root, 's%d' % k)
        os.makedirs(d)
        res = {}
        CH = 150        # pairs per valgrind process: bounds the number of dump files alive at once
        for off in range(0, len(shard), CH):
            chunk = shard[off:off + CH]
            for f in os.listdir(d):
                os.unlink(os.path.join(d, f))
            inp = ''.join('%s\t%s\t%s\t%s\n' % (c['id'], c['op'], c['a1'], c['a2']) for c in chunk)
            pr = subprocess.run(VALGRIND + ['--callgrind-out-file=' + os.path.join(d, 'cg'), exe], input=inp, env=env,
                                stdout=subprocess.PIPE, stderr=subprocess.PIPE, text=True, timeout=timeout)
            status = {}
            for l in pr.stdout.split('\n'):
                f = l.split('\t')
                if len(f) >= 2:
                    status[f[0]] = f[1:]
            n = 0
            for c in chunk:
                st = status.get(c['id'])
                if st is None:
                    res[c['id']] = ('error', 'no result line (rc=%d) %s' % (pr.returncode, pr.stderr[-300:])); continue
                if st[0] == 'panic':
                    n += (int(st[1]) - 1) if len(st) > 1 else 0
                    res[c['id']] = ('error', 'wrapper panicked in run %s' % (st[1] if len(st) > 1 else '?')); continue
                if st[0] == 'unsupported':
                    res[c['id']] = ('error', 'unsupported wrapper'); continue
                f1, f2 = os.path.join(d, 'cg.%d' % (n + 1)), os.path.join(d, 'cg.%d' % (n + 2))
                n += 2
                if not (os.path.exists(f1) and os.path.exists(f2)):
                    res[c['id']] = ('error', 'missing callgrind dump'); continue
                (p1, t1), (p2, t2) = parse_dump(f1), parse_dump(f2)
                if p1.total == 0 or p2.total == 0:
                    res[c['id']] = ('error', 'empty profile'); continue
                if p1.key() == p2.key():
                    res[c['id']] = ('same', p1.total)
                else:
                    dec, oth = differences(p1, p2)
                    lead = (dec or oth)[0]
                    res[c['id']] = ('diff', {'instructions1': p1.total, 'instructions2': p2.total,
                                             'address': '0x%x' % lead[0], 'what': lead[1], 'site': lead[2],
                                             'decision_sites': sorted(set(x[2] for x in dec))[:16],
                                             'other_sites': sorted(set(x[2] for x in oth))[:16],
                                             'differing_records': len(dec) + len(oth)})
        shutil.rmtree(d, ignore_errors=True)
        return res
    out = {}
    with ThreadPoolExecutor(max_workers=nshard) as ex:
        for r in ex.map(work, range(nshard)):
            out.update(r)
    shutil.rmtree(root, ignore_errors=True)
    return out
