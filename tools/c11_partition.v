(* C11 helper (not part of the build): prints, for one area, the keys that the syntactic tactic [np] cannot prove quiet
   (= the future x_panic_keys) and, for those, whether the spec entry alone is quiet (then the model must be shown not to
   panic inside the documented domain: an internal assertion / expect that never fires).
   Usage:  cd coq && coqc -Q . CB -w -all ../tools/c11_partition.v     (edit the last lines for the new area) *)
From CB Require Import Model.Limbs Model.AddSub Proofs.TotalityP.
From Coq Require Import ZArith List String Bool Lia.
Open Scope Z_scope.
Ltac part M S :=
  let ks := eval vm_compute in (map fst M) in
  assert (forall k dbg a, In k ks -> run_tab M k dbg a <> PanicV /\ run_tab S k dbg a <> PanicV);
  [ let k := fresh "k" in let dbg := fresh "dbg" in let a := fresh "a" in let Hin := fresh "Hin" in
    intros k dbg a Hin; cbn [In] in Hin;
    repeat (destruct Hin as [<- | Hin];
      [ first [ solve [split; open_tabs M S; np]
              | match goal with |- run_tab _ ?k _ _ <> _ /\ _ => idtac "NOISY" k end;
                first [ assert_succeeds (split; [exfalso; clear; admit | open_tabs M S; np]); idtac "   (spec quiet)"
                      | idtac "   (spec has a PanicV branch)"];
                exfalso; clear; admit ] |]);
    contradiction | ].
Goal True.
idtac "== addsub". part ops_addsub_model ops_addsub_spec.
Abort.
