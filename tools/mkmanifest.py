#!/usr/bin/env python3
"""Regenerates MANIFEST.json from the table below (kept valid against /root/.vp/MANIFEST.schema.json)."""
import json, os
ROOT = os.path.dirname(os.path.dirname(os.path.abspath(__file__)))
CLAIMED = json.load(open(os.path.join(ROOT, 'tools', 'claims.json')))
props = [json.loads(l) for l in open(os.path.join(ROOT, 'properties.jsonl'))]
checks = []
na = []
for p in props:
    pid = p['id']
    c = CLAIMED.get(pid)
    if c is None or c.get('not_applicable'):
        na.append({'property_id': pid, 'reason': (c or {}).get('reason', 'check not built yet in this round (no model/theorems committed); not claimed')})
        continue
    checks.append({
        'property_id': pid,
        'quick_cmd': './check %s --tier quick' % pid,
        'thorough_cmd': './check %s --tier thorough' % pid,
        'evidence_file': 'evidence/%s.json' % pid,
        'replay_cmd_template': './check %s --replay {path}' % pid,
        'engine': 'coq-model+correspondence',
        'level_claimed': {'category': 'proof', 'text': c['text'], 'design_ref': c.get('design_ref', 'DESIGN.md §5 ' + pid)},
        'level_note': c['note'],
        'technique': c.get('technique', 'Coq theorems (model = spec, all widths) + differential correspondence of /repo against the extracted model'),
    })
m = {
    'version': 1,
    'setup_cmd': './check --setup',
    'hooks': {
        'guard': 'crypto_bigint_verif',
        'enable': 'RUSTFLAGS="--cfg crypto_bigint_verif" (set by ./check for every harness build)',
        'baseline_off_cmd': 'cd /repo && cargo test --workspace --no-fail-fast --offline',
        'source_commits': [],
        'add_only': True,
    },
    'engines': [{'name': 'coq-model+correspondence', 'path': 'check',
                 'serves_properties': [c['property_id'] for c in checks],
                 'kind_free_text': 'Coq 8.16 proofs about a hand-written Gallina model (coq/), tied to /repo by a differential run of a Rust harness (harness/) against the OCaml extraction of the same model (ocaml/driver.ml), cross-checked with vm_compute'}],
    'checks': checks,
    'not_applicable': na,
    'notes': 'See DESIGN.md. known_findings.json lists genuine defects (open findings and fix: commits).',
}
json.dump(m, open(os.path.join(ROOT, 'MANIFEST.json'), 'w'), indent=1)
print('claimed', len(checks), 'not claimed', len(na))
