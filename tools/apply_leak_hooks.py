#!/usr/bin/env python3
"""Re-applies the C01 leakage-model hooks to tools/vlib/common.py (idempotent). Needed after a whole-file copy of common.py
from a translator-extension worker, whose copy does not carry them."""
import os, re
p = os.path.join(os.path.dirname(os.path.abspath(__file__)), 'vlib', 'common.py')
s = open(p).read()
if '_LEAK_GROUPS' not in s:
    m = re.search(r"SRC_ORDER = \[.*?\]\n", s, re.S)
    s = s[:m.end()] + ("# source-derived leakage model of C01 (tools/rs2v_leak.py): Leak<G>.v is generated next to Gen<G>.v, Leak<G>P.v is hand-written\n"
        "_LEAK_GROUPS = ['Prim', 'Div', 'Uint', 'Mod', 'Shift', 'Mul', 'Int', 'DivLimb', 'Monty', 'Hex', 'Bits', 'DivCt', 'Sqrt', 'Amm', 'MulMod', 'IntDiv', 'Cmp', 'IntCmp', 'Conv', 'Wrap', 'SafeGcd']\n"
        "_LEAK = ['LeakIterP'] + [x for g in _LEAK_GROUPS for x in ('Leak' + g, 'Leak' + g + 'P')]\n"
        "SRC_ORDER += _LEAK\n") + s[m.end():]
    m = re.search(r"SRC_NEEDS = \{.*?\}\n", s, re.S)
    s = s[:m.end()] + "SRC_NEEDS['C01'] = ['Gen' + g for g in _LEAK_GROUPS] + _LEAK\n" + s[m.end():]
if "leak = os.path.join(ROOT, 'tools', 'rs2v_leak.py')" not in s:
    anchor = "    failed = ['%s (%s)' % (k, v) for r in report.values() for k, v in r if not v.startswith('ok')]\n"
    assert anchor in s
    s = s.replace(anchor, ("    leak = os.path.join(ROOT, 'tools', 'rs2v_leak.py')\n"
        "    if os.path.exists(leak) and pid == 'C01':\n"
        "        # the instrumented twins l_<name> of the same kernels (leakage model of C01), from the same source text\n"
        "        rc2, out2 = sh([sys.executable, leak, REPO, os.path.join(COQ, 'Src')])\n"
        "        rc = rc or rc2; out += out2\n"
        "        try:\n"
        "            report.update(json.load(open(os.path.join(COQ, 'Src', 'rs2v_leak_report.json'))))\n"
        "        except Exception:\n"
        "            pass\n") + anchor, 1)
    a2 = "            why = 'the source text of a modelled kernel changed' if not failed else 'rs2v could not translate: ' + '; '.join(failed[:6])\n"
    assert a2 in s
    s = s.replace(a2, a2 + ("            if m.startswith('Leak') and not failed:\n"
        "                why = ('source-derived leakage model: for the current source text an instrumented kernel is no longer consistent with the tied '\n"
        "                       'text or no longer noninterferent -- a branch condition / index / division operand / trip count depends on a secret '\n"
        "                       'operand, or the kernel changed')\n"), 1)
open(p, 'w').write(s)
print('leak hooks present')
