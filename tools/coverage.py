#!/usr/bin/env python3
"""Measures how much of /repo's source the correspondence actually executes (the tie model <-> code is only as wide as this).

  tools/coverage.py [quick|thorough] [Cxx ...]

Builds the harness a third time with the nightly toolchain and `-C instrument-coverage` (source-based LLVM coverage,
opt-level 1 so functions are not inlined away from their counters), runs the generated cases of every claimed property
(the same generators and seeds as ./check) through it, merges the profiles and writes
  coverage/summary.json   per source file: regions / lines covered; per property the case count
  coverage/unreached.txt  every function of /repo/src with an execution count of 0 (demangled), grouped by file
This is a MEASUREMENT of the tie, not a check: it never prints VIOLATION. ./check does not depend on it.
"""
import sys, os, json, subprocess, random, importlib, shutil, glob, re, time
sys.path.insert(0, os.path.dirname(os.path.abspath(__file__)))
from vlib import common as C

tier = 'quick'
ids = []
for a in sys.argv[1:]:
    if a in ('quick', 'thorough'):
        tier = a
    else:
        ids.append(a)
man = json.load(open(os.path.join(C.ROOT, 'MANIFEST.json')))
if not ids:
    ids = [c['property_id'] for c in man['checks'] if c['property_id'] not in ('C01',)]
NIGHTLY = os.path.expanduser('~/.rustup/toolchains/nightly-x86_64-unknown-linux-gnu')
BIN = os.path.join(NIGHTLY, 'lib/rustlib/x86_64-unknown-linux-gnu/bin')
TGT = os.path.join(C.CACHE, 'target_cov')
OUT = os.path.join(C.ROOT, 'coverage')
PROF = os.path.join(C.CACHE, 'cov_prof')
shutil.rmtree(PROF, ignore_errors=True)
os.makedirs(PROF, exist_ok=True); os.makedirs(OUT, exist_ok=True)

C.write_generated()
env = dict(C.ENV)
env.update({'RUSTFLAGS': '--cfg %s -Awarnings -C instrument-coverage' % C.GUARD, 'CARGO_TARGET_DIR': TGT,
            'RUSTUP_TOOLCHAIN': 'nightly-x86_64-unknown-linux-gnu'})
t0 = time.time()
rc, out = C.sh(['cargo', 'build', '--offline', '--profile', 'verifdbg'], cwd=C.HARNESS, timeout=3000, env=env)
if rc != 0:
    print(out[-3000:]); sys.exit(2)
exe = os.path.join(TGT, 'verifdbg', 'cbv')
print('coverage build %.0fs' % (time.time() - t0), flush=True)

seed = int(os.environ.get('VERIF_SEED', '1'))
ncases = {}
C.ENV['LLVM_PROFILE_FILE'] = os.path.join(PROF, 'p-%p-%m.profraw')
for pid in ids:
    try:
        mod = importlib.import_module('vlib.' + pid.lower())
    except ImportError:
        continue
    rng = random.Random(seed * 1000003 + int(pid[1:]))
    cases = (list(mod.corpus()) if hasattr(mod, 'corpus') else []) + mod.gen(tier, rng)
    for i, c in enumerate(cases):
        c.id = 'k%d' % i
    t = time.time()
    impl = C.run_lines([exe], [c.line() for c in cases])
    if hasattr(mod, 'extra_check'):
        # routes that the property-specific check drives itself (C12 producers, C15 route pairs)
        driver = C.build_driver()
        class Ctx: pass
        ctx = Ctx()
        mres = C.run_lines([driver], [c.line() for c in cases])
        ctx.cases, ctx.impl_rel, ctx.impl_dbg, ctx.mod_rel, ctx.mod_dbg = cases, impl, {}, mres, {}
        ctx.exe_rel, ctx.exe_dbg, ctx.driver, ctx.tier, ctx.seed = exe, exe, driver, tier, seed
        ctx.run_impl = lambda cs, profile='release': C.run_lines([exe], [c.line() for c in cs])
        ctx.run_model = lambda cs, dbg=False: C.run_lines([driver] + (['debug'] if dbg else []), [c.line() for c in cs])
        try:
            mod.extra_check(ctx)
        except Exception as e:
            print('  extra_check of %s not run under coverage: %r' % (pid, e))
    ncases[pid] = len(cases)
    print('%s: %d cases, %.0fs' % (pid, len(cases), time.time() - t), flush=True)

raws = glob.glob(os.path.join(PROF, '*.profraw'))
pd = os.path.join(PROF, 'all.profdata')
rc, o = C.sh([os.path.join(BIN, 'llvm-profdata'), 'merge', '-sparse', '-o', pd] + raws)
if rc != 0:
    print(o[-2000:]); sys.exit(2)
rc, o = C.sh([os.path.join(BIN, 'llvm-cov'), 'export', '--format=text', '--instr-profile', pd, exe,
              '--ignore-filename-regex', r'(\.cargo|rustc|harness)/'], timeout=3000)
if rc != 0:
    print(o[-2000:]); sys.exit(2)
j = json.loads(o[o.index('{'):])
d = j['data'][0]
files = {}
repo_src = os.path.realpath(os.path.join(C.REPO, 'src'))
tot = {'lines': [0, 0], 'regions': [0, 0], 'functions': [0, 0]}
for f in d['files']:
    fn = os.path.realpath(f['filename'])
    if not fn.startswith(repo_src):
        continue
    s = f['summary']
    rel = os.path.relpath(fn, repo_src)
    files[rel] = {k: [s[k]['covered'], s[k]['count']] for k in ('lines', 'regions', 'functions')}
    for k in tot:
        tot[k][0] += s[k]['covered']; tot[k][1] += s[k]['count']
# functions: an instantiation-independent view (a generic function counts as reached when any instantiation ran)
funcs = {}
for fn in d['functions']:
    fls = [os.path.realpath(x) for x in fn['filenames']]
    if not fls or not fls[0].startswith(repo_src):
        continue
    r = fn['regions'][0]
    key = (os.path.relpath(fls[0], repo_src), r[0])
    e = funcs.setdefault(key, {'name': fn['name'], 'count': 0})
    e['count'] += fn['count']
_src = {}
def describe(rel, line):
    """the `fn` header at that line and the nearest enclosing `impl`/`trait`/`macro_rules!` header above it"""
    if rel not in _src:
        _src[rel] = open(os.path.join(repo_src, rel)).read().split('\n')
    L = _src[rel]
    txt = L[line - 1].strip() if line - 1 < len(L) else ''
    if not re.search(r'\bfn\b', txt):
        return None          # a closure or a const block, reported with its function
    hdr = ''
    for k in range(line - 2, -1, -1):
        if re.match(r'\s*(unsafe )?(impl\b|pub trait|trait |macro_rules!)', L[k]) and len(L[k]) - len(L[k].lstrip()) < len(L[line - 1]) - len(L[line - 1].lstrip()):
            hdr = L[k].strip().rstrip('{').strip()
            break
    return (txt.split('{')[0].strip() + ('    [in: ' + hdr + ']' if hdr else ''))
unreached = {}
for (rel, line), e in sorted(funcs.items()):
    if e['count'] == 0:
        dsc = describe(rel, line)
        if dsc:
            unreached.setdefault(rel, []).append((line, dsc))
with open(os.path.join(OUT, 'unreached.txt'), 'w') as fo:
    fo.write('# functions of /repo/src (any instantiation) never executed by the cases of %s (tier %s, seed %d)\n' % (' '.join(ids), tier, seed))
    fo.write('# test modules (#[cfg(test)]) are not compiled; functions that no adapter instantiates do not appear at all\n')
    for rel, l in unreached.items():
        fo.write('%s\n' % rel)
        for line, n in l:
            fo.write('    line %d  %s\n' % (line, n))
summ = {'tier': tier, 'seed': seed, 'properties': ids, 'cases': ncases, 'total': tot,
        'functions_distinct': len([1 for (r, l) in funcs if describe(r, l)]),
        'functions_distinct_reached': len([1 for (r, l), e in funcs.items() if e['count'] > 0 and describe(r, l)]),
        'functions_unreached': sum(len(v) for v in unreached.values()),
        'files': files, 'note': 'source-based LLVM coverage (rustc -C instrument-coverage, nightly, opt-level 1) of the harness linked '
        'against /repo; only code that the harness instantiates is counted (uninstantiated generics are invisible)'}
json.dump(summ, open(os.path.join(OUT, 'summary.json'), 'w'), indent=1)
print('lines %d/%d (%.1f%%), regions %d/%d (%.1f%%), distinct functions reached %d/%d' % (
    tot['lines'][0], tot['lines'][1], 100.0 * tot['lines'][0] / max(1, tot['lines'][1]),
    tot['regions'][0], tot['regions'][1], 100.0 * tot['regions'][0] / max(1, tot['regions'][1]),
    summ['functions_distinct_reached'], summ['functions_distinct']))
shutil.rmtree(PROF, ignore_errors=True)
