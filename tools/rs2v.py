#!/usr/bin/env python3
"""rs2v: translator from a small subset of Rust (the word-level kernels of crypto-bigint: straight-line `const fn`s over
u8/u32/u64/u128/bool, newtypes over a word, tuples, one struct of words, counted `while` loops, limb arrays and limb slices)
to Gallina over Z.

It is run by ./check on EVERY run against /repo's current source and regenerates coq/Src/Gen*.v; the hand-written files
coq/Src/Gen*P.v then prove, for all arguments, `generated function = the function of coq/Model used by the property
theorems`.  A change of a kernel's source text therefore changes the generated definition and the equality proof is
re-checked against what the code says now (translator tie, in addition to the sampled correspondence).

Semantics implemented (64-bit target, release profile: integer overflow wraps; `debug_assert!` / `assert!` are dropped:
the theorems state the hypotheses under which they hold; an out-of-bounds index reads 0 / `upd_` beyond the end appends,
the theorems carry the length hypotheses):
  a + b, a - b, a * b at type uN        add_ N a b = (a + b) mod 2^N, sub_, mul_
  a << s, a >> s                         shl_ N a s = (a * 2^s) mod 2^N,  shr_ a s = a / 2^s
  & | ^ !                                Z.land Z.lor Z.lxor, not_ N a = 2^N - 1 - a
  e as uM (narrowing) / widening         trunc_ M e / e ;  bool as uM = b2z
  wrapping_add/sub/mul/neg               add_ sub_ mul_ neg_ ;  overflowing_add -> (sum, carry : bool) ; leading_zeros -> clz_
  == != < <= > >=, && || !               Z.eqb ... on the unsigned values, andb orb negb
  newtypes ConstChoice(Word), Limb(Word) erased (`.0` is the identity); Reciprocal = record of three words
  let / let mut / shadowing / x = e / x op= e   nested `let`
  `let mut i = 0; while i < LIT { ..; i += 1 }`  unrolled LIT times
  `while i > 0 { i -= 1; .. }`           Nat.iter (Z.to_nat i) over the tuple of variables assigned in the body
  [Limb; LIMBS], Uint<LIMBS>             list Z; a[i] -> nth (Z.to_nat i) a 0 ; a[i] = v -> upd_ a (Z.to_nat i) v ; functions of
                                         `impl Uint<LIMBS>` / `impl Int<LIMBS>` take (LIMBS : nat) first
  `let mut i = 0; while i < LIMBS { ..; i += 1 }`   Nat.iter LIMBS over (i, the variables the body assigns, in order of
                                         first assignment); a `let` inside a body makes the name local to the body
Added for the slice kernels, the shifts and Int (each is a construct of the language / a type name of the crate, never a
particular function):
  &[Limb], &mut [Limb]                   list Z (type `slice`); x.len() -> (Z.of_nat (length v_x)) : usize ; x[i], x[i] = v as above
  fn f(.., lo: &mut [Limb], ..) (unit)   the Coq function RETURNS the final contents of its `&mut` parameters (one list, or the
                                         tuple of them in parameter order); such a function may not be called in expression position
  `let mut i = 0; while i < x.len() {..; i += 1}`   Nat.iter (length v_x) .. (a slice never changes its length)
  `while i < E { ..; i += 1 }`, any start value, E not changed by the body   Nat.iter (Z.to_nat (E - v_i)) ..
                                         (max(0, E - i) iterations; i < E so `i += 1` cannot wrap)
  if c { A } else { B } / else if / no else, as a STATEMENT (the branches assign)
                                         let '(x1, .., xn) := if c then (A; (x1, .., xn)) else (B; (x1, .., xn)) in ..
                                         for the variables x1..xn assigned in either branch (declared outside it)
  if c { a } else { b } as an EXPRESSION (tail of a block, right-hand side)   (if c then a else b); both blocks may contain `let`s
  (p0, p1, ..) = rhs;  places x | x[i] | x.limbs[i] | x[i].0   let '(tmp_0, tmp_1, ..) := rhs in, then the places are assigned
                                         left to right (each index expression is evaluated when its place is assigned)
  `if c { panic!(..) }` at the top level of the function body   if c then (panic_ D) else <rest of the function>, where D is the
                                         default value of the result type (0 / false / nil / tuples of them) and
                                         SrcPrelude.panic_ is the identity: the theorems state that c is false
  `;` may be omitted before `}`; `Uint::<LIMBS>::new` (turbofish with LIMBS); 1u32-style suffixes
  LIMBS, Self::LIMBS (in a generic impl) (Z.of_nat LIMBS) : usize
  Int<LIMBS>                             newtype over Uint<LIMBS>, erased: `.0`, `Self(u)` are the identity; methods resolve to Int<LIMBS>::m
  [Word; LIMBS], `[0; LIMBS]`            list Z whose elements are words (type `warr`)
  Word::ZERO                             0
  associated constants                   {"const": NAME, "impl": T} targets: `const NAME: Ty = e;` is translated like a function
                                         without parameters (Definition g (LIMBS : nat) : Ty := e for a generic impl) and
                                         T::NAME / Self::NAME refer to it
  trait impls                            {"trait": Tr, "impl": T} targets: the function is looked up in `impl<..> Tr for T { .. }`
  a / b, a % b (unsigned)                div_ a b = a / b, rem_ a b = a mod b (a zero divisor panics in Rust: hypothesis of the theorem)
  `if c { return e; }` at the top level of the function body   if c then e else <rest of the function>
  ConstCtOption<T>                       struct { value: T, is_some: ConstChoice } = the pair (value, is_some) : (T * Z);
                                         `Self { value, is_some }` -> (v, c), `.value` / `.is_some` -> fst / snd; the functions of
                                         `impl<T> ConstCtOption<T>` are translated from their source as polymorphic definitions
                                         ({T : Type}) and T is instantiated at each call from the argument's type
Added for the limb-division loops, the Montgomery reduction and the hex nibble decoder (again constructs of the language /
type names of the crate only):
  fn f<const L: usize>(..)               a free function generic over ONE const usize: Definition g (L : nat) ..; inside it L plays
                                         the role LIMBS plays in `impl<const LIMBS: usize> Uint<LIMBS>`: Uint<L>, [Limb; L],
                                         `[Limb::ZERO; L]`, `Uint::<L>::new`, L as a value (Z.of_nat L), and it is passed as the
                                         limb count to the Uint<LIMBS> methods and to other generic free functions it calls
                                         (a generic free function called from a context without a const generic is an error)
  NonZero<T>, Odd<T>                     struct NonZero<T>(T) / Odd<T>(T): erased newtypes, `.0` is the identity and has type T
  x[i] op= e, x.limbs[i].0 op= e         compound assignment to a place: place = place op e (the index expression is pure)
  `let mut x;`                           declared, assigned later (Rust checks that it is assigned before it is read): until then
                                         the variable holds the default value 0 / false / nil of its type, which is the type of the
                                         first assignment (the variable is part of the state of every loop that assigns it)
  fn f(.., x: &mut [Limb], ..) -> T      `&mut` parameters AND a value: the Coq function returns (value, final contents of the
                                         `&mut` parameters in parameter order)
  let p = f(.., &mut x, &mut y.limbs, ..);  /  f(.., &mut x, ..);
                                         a call of a function with `&mut` parameters may stand alone as the right-hand side of a
                                         `let` or as a statement: let '(p, v_x, v_y) := (g_f .. v_x v_y ..) in -- the borrowed
                                         variables (plain `x`, or `x.limbs` of a Uint) are rebound to the final contents; `&mut`
                                         anywhere else is an error; such variables count as assigned for loop / if states
  &x.limbs : &[Limb; N] passed for &[Limb]   unsized coercion, both are lists
  i8 i16 i32 i64 i128                    signed machine integers are the Z in [-2^(w-1), 2^(w-1)); + - * wrap to two's complement:
                                         sadd_ w a b = swrap_ w (a + b), ssub_, smul_, unary minus sneg_ w a = swrap_ w (-a) with
                                         swrap_ w x = (x + 2^(w-1)) mod 2^w - 2^(w-1);  & | ^ are Z.land Z.lor Z.lxor (two's
                                         complement on negative Z), !a = snot_ a = -a - 1;  a << s = sshl_ w a s = swrap_ w (a * 2^s);
                                         a >> s is the ARITHMETIC shift shr_ a s = a / 2^s (floor);  comparisons compare the Z;
                                         / and % on signed values are NOT in the subset; literals `-1`, `0x2fi16`
  e as iM                                from uN with N < M or from iN with N <= M: e; otherwise swrap_ M e
  e as uM, e signed                      trunc_ M e = e mod 2^M (sign extension followed by reinterpretation)
  [u8; 2] (also u16 / u32 / u64, any literal length)   list Z; b[i] -> nth (Z.to_nat i) b 0 of the element type
Added for the constant-time long division Uint::div_rem and what it calls (bits, the shift ladders, to_nz, expect):
  `if c { s1; ..; return e; }`           guard at the top level of the function body whose block has statements before the
                                         `return` (no loop, no nested return): if c then (s1; ..; e) else <rest of the function>
  `while v > 0 { ..; v -= 1; }`          (decrement LAST, v not assigned elsewhere in the body) Nat.iter (Z.to_nat v) over (v, the
                                         assigned variables): the body sees v, v - 1, .., 1
  `while i <= E { ..; i += 1 }`          Nat.iter (Z.to_nat (E + 1 - v_i)): max(0, E + 1 - i) iterations (E is below the maximum of
                                         its type, else the Rust loop would not terminate: hypothesis of the theorems)
  `let mut i = 0; while i < E ..`        an untyped counter takes the type of the bound E (u32 for `shift_bits`)
  (_, b) = rhs;                          `_` as a place of a destructuring assignment: the component is dropped
  impl ConstCtOption<NonZero<Limb>> / impl<const LIMBS: usize> ConstCtOption<Uint<LIMBS>>
                                         specialised impl blocks as targets ({"impl": "ConstCtOption<Uint<LIMBS>>", ..}): Self is
                                         the header read as a type; a method call on a ConstCtOption value resolves to the block
                                         spelled like the value's type, else to the generic `impl<T> ConstCtOption<T>`; blocks
                                         whose header mentions LIMBS take (LIMBS : nat) first
  NonZero(x), Odd(x)                     constructor of the erased newtypes: x
  &str, "literal"                        panic messages: type unit, value tt
  a.saturating_sub(b), a.div_ceil(b)     on unsigned primitives: satsub_ a b = if a <? b then 0 else a - b,
                                         div_ceil_ a b = (a + b - 1) / b
  (`assert!` / `expect` are dropped like `debug_assert!`: `x.expect(msg)` of a ConstCtOption is translated from its source
   `assert!(self.is_some.is_true_vartime(), ..); self.value` and returns the carried value; the models return None where the
   assertion fails and the theorems are stated for the Some case)
Added for the square root, the signed division fronts, the special-modulus multiplication and the almost-Montgomery
multiplication (constructs of the language / type names of the crate only, never the body of a particular function):
  Uint<{ LIMBS }>                        a braced const argument is the const generic itself; the body of a function starts at the
                                         first `{` outside angle brackets
  impl<const LIMBS: usize> NonZero<Uint<LIMBS>> / NonZero<Int<LIMBS>> / impl NonZero<Limb>
                                         specialised impl blocks of the erased wrappers as targets ({"impl": "NonZero<Int<LIMBS>>", ..});
                                         `Self(x)` there is x; blocks whose header mentions LIMBS take (LIMBS : nat) first
  NonZero::<Uint<LIMBS>>::f(..), NonZero::<Limb>::f(..)
                                         turbofish carrying ONE type: the function f of the impl block spelled `NonZero<Uint<LIMBS>>`
  x.m(..) with x : NonZero<T> / Odd<T>   the method m of the impl block spelled like the type of x (`NonZero<Int<LIMBS>>::abs_sign`) if it is
                                         a target; else, if NO impl block of the wrapper anywhere under src/ defines a function named m,
                                         the method of T (`impl<T> Deref for NonZero<T>`, auto-deref); else an error
  if c { e } else { panic!(..) }         as an EXPRESSION (either branch may be the diverging one): if c then e else (panic_ D), D the default
                                         value of the type of e; the theorems state the condition under which the guard is not taken
  { s1; ..; e }                          block expression (right-hand side of a `let` / assignment): its `let`s are local; a block that
                                         assigns a variable declared outside it is an error
  [e1, e2, ..]                           array literal: the list (e1 :: e2 :: .. :: nil) of type [Word; k] / [Limb; k] = Uint<k> with the LITERAL
                                         length k
  f([lo, hi]), g(&Uint<k>)               a call of a function generic over the limb count (impl<const LIMBS: usize> / fn f<const L: usize>)
                                         with an argument of literal length k where the parameter has length LIMBS / L: the callee's
                                         const generic is k (passed as `k%nat`), its return type is read at that instance
                                         (`Uint::from_words([lo, hi])` : Uint<2>); works in a context without a const generic
  Word::MIN                              0
  {"extern": true} targets               a function OUTSIDE the subset that translated functions call (`Uint::split_mul`: Karatsuba dispatch,
                                         macro-generated): only its declared signature is read from the source (its own const generics
                                         `<const RHS_LIMBS: usize>` are read at the instance where they equal LIMBS); it becomes a Section
                                         Variable of the generated file, so every definition of the group that (transitively) calls it takes
                                         it as its FIRST argument and the theorems about those definitions quantify over it, stating what
                                         they assume of it. A function that depends on an extern may only be called inside its group.
                                         The report marks it `ok (extern: signature only)`
  f(z, ..) with z a `&mut [Limb]` PARAMETER of the current function
                                         passed on to a function with `&mut` parameters (implicit reborrow): like `&mut x`, z is rebound to
                                         its final contents
  c = f(.., &mut x / z, ..);             assignment whose right-hand side is such a call: let '(v_c, v_x) := (g_f ..) in
  let mut c = if q { ..; f(z, ..) } else { ..; e };
                                         a `let` whose value is an `if` with such a call in a branch is read as
                                         `let mut c; if q { ..; c = f(z, ..); } else { ..; c = e; }` (the same Rust program): the `if`
                                         statement rebinds (z, c)
  `while i < E && j < F { ..; i += 1; j += 1; }`
                                         (both increments last, in either order; i, j not assigned elsewhere in the body, E, F not changed
                                         by it) Nat.iter (Z.to_nat (Z.min (E - v_i) (F - v_j))) over (i, j, the assigned variables)
Added for the safegcd kernels (src/modular/safegcd.rs), the wrapper constructors and the three-way comparison (constructs of the
language / type names of the crate only, never the body of a particular function):
  UnsatInt<LIMBS>                        struct UnsatInt<LIMBS>(pub [u64; LIMBS]): newtype over a word array, erased (list Z): `.0` / `Self(a)` are
                                         the identity, `x.0[i]` reads / `x.0[i] = v` writes the i-th word; methods resolve to
                                         `impl<const LIMBS: usize> UnsatInt<LIMBS>` (items take (LIMBS : nat) first); `UnsatInt::<LIMBS>::MASK`
  [u64; LIMBS], `[w; LIMBS]`             like [Word; LIMBS] (u64 = Word on the 64-bit target); `[e; LIMBS]` where a word array is expected
  &[Word], &[u64]                        a slice of words: list Z; x[i] : u64; x.len()
  [T; k], [[i64; 2]; 2]                  arrays of literal length over any machine integer (signed too) or again such an array: list Z /
                                         list (list Z); t[i][j] -> nth j (nth i t nil) 0; t[i] = row -> updl_ t i row (updl_: upd_ at any
                                         element type); array literals of such elements `[[1, 0], [0, 1]]`, `[-t[0][0], -t[0][1]]`
  type NAME = T;                         a type alias declared in the SAME source file (`type Matrix = [[i64; 2]; 2];`) is read as T
  u64::MAX                               2^64 - 1
  #[cfg(target_pointer_width = "32")] { .. }   a block under the 32-bit cfg is not part of the program (skipped; on anything but a block: error);
                                         `#[cfg(target_pointer_width = "64")] { e }` is the block expression { e }
  a.wrapping_add(b) / wrapping_sub / wrapping_mul / wrapping_neg at type iN   sadd_ / ssub_ / smul_ / sneg_ (two's complement wrap, as + - * -)
  a.trailing_zeros()                     ctz_ w a at the width w of the type of a, signed or unsigned (ctz_go_: count of low zero bits of the
                                         two's complement pattern, w for 0), type u32
  let (a, mut b) = (e1, 0);              tuple `let` whose right-hand side is a tuple expression: a component that is an untyped literal takes its
                                         type from the first typed use of the variable it binds (as `let mut b = 0;` does)
  let m = (1 << k) - 1;                  a `let` of an integer expression whose type nothing inside it fixes (only literals at the typed
                                         positions): Rust infers the type from the uses of m; the Coq text is produced when the first TYPED use
                                         of m is met (with the environment of the `let`); never used at a type: error
  const fn min(a: i64, b: i64) -> i64 { .. }   a nested function item inside a function body: let v_min := (fun (v_a : Z) (v_b : Z) => ..) in;
                                         its body sees only its parameters (Rust: a nested fn cannot capture); calls `min(x, y)` -> (v_min x y)
  loop { A; if c { break; } B }          at the top level of the function body of a free, non-generic function without `&mut` parameters; `if c
                                         { break; }` (no else) may stand at the top level of the loop body any number of times, `break` nowhere
                                         else.  Rust iterates until the break; the Coq function takes `(fuel : nat)` as its FIRST argument and
                                         returns `option T`:   match loop_ fuel (fun st => .. ((state), true|false)) (state) with None => None |
                                         Some st => Some (rest of the function) end, the state being the tuple of the variables the body
                                         assigns; SrcPrelude.loop_ runs at most fuel iterations and is None when the break was not reached.
                                         The theorems prove `= Some v` for every fuel above a stated bound, i.e. that the Rust loop TERMINATES
                                         and returns v.  A guard (`if c { return / panic! }`) in such a function and a call of such a function
                                         from translated code are errors.
Added for the byte / hex decoders and the primitive constructors (src/uint/encoding.rs, src/uint/from.rs, src/odd.rs; constructs of the
language / type names of the crate / functions of core only, never the body of a particular function):
  &[u8]                                  a slice of bytes: list Z (type `bslice`); x[i] : u8; x.len()
  &str READ by the body                  a `&str` parameter that the parsed body mentions (the text of the dropped `assert!` / `panic!`
                                         messages is not part of it) is the list of its UTF-8 bytes (type `bstr`, list Z): s.as_bytes() is the
                                         identity and has type &[u8]; s.len(); it may be passed on to a function whose parameter is again
                                         such a `&str`.  A `&str` parameter that is never read stays erased (unit) as before; a string
                                         LITERAL is still `tt : unit`, so passing one where the bytes are read is a type error
  [e; K], K a literal or `Limb::BYTES`   `[0u8; Limb::BYTES]`: an array of machine integers of LITERAL length ([T; k], list Z): (repeat e k%nat);
                                         `Limb::BYTES` is the usize 8 on the 64-bit target (like `Limb::BITS` = 64); `[e; LIMBS]` as before
  Word::from_be_bytes(a), u64:: / u32:: / u16:: / u128::from_be_bytes / from_le_bytes
                                         core's conversions of a [u8; N/8] array (the argument must have exactly that type):
                                         from_be_bytes_ a / from_le_bytes_ a of SrcPrelude = the positional value in base 256, most / least
                                         significant byte first
  `while j < Limb::BYTES { .. }`         a bound that is a constant: the general counted loop, Nat.iter (Z.to_nat (8 - v_j))
  `let mut err = 0;` first used two loops down (`err |= byte_err`)   typed by that use, as before
  U64::f(..), U128::f(..), U<bits>::f(..)   a function of `impl<const LIMBS: usize> Uint<LIMBS>` called through a type alias of the crate: an entry
                                         `(U<bits>, <bits>, ..)` of an `impl_uint_aliases!` invocation in src/uint.rs (read from the source)
                                         declares `pub type U<bits> = Uint<{ nlimbs!(<bits>) }>`, i.e. Uint<k> with k = ceil(bits / 64): the
                                         callee's const generic is k (passed as `k%nat`), parameter / return types are read at that instance
  x.limbs of a Uint<k>, a.len(), a[i] with a : [Limb; k], k a literal
                                         the limb array of literal length; `.len()` is the usize k; a[i] -> nth (Z.to_nat i) a 0 : Limb
  (the hex decoders end in `assert!(err == 0, ..)`, which is dropped like every assertion: the proof file restates the loop, checks by
   reflexivity that it is the generated text, and states the theorems about its `err` component)
Anything else is a translation error: the function is emitted as an ill-typed stub so that its equality proof fails
(reported as a broken proof obligation of the properties that rest on it), never silently skipped.
"""
import re, sys, os, json

class TErr(Exception):
    pass

class Untyped(TErr):
    """an integer expression of literals whose type nothing inside it fixes (`(1 << k) - 1`)"""
    pass

# ------------------------------------------------------------------ lexer
TOK = re.compile(r'''
   (?P<ws>\s+|//[^\n]*|/\*.*?\*/)
 | (?P<num>0x[0-9a-fA-F_]+|0b[01_]+|[0-9][0-9_]*)(?P<suf>u8|u16|u32|u64|u128|usize|i8|i16|i32|i64|i128)?
 | (?P<id>[A-Za-z_][A-Za-z_0-9]*)
 | (?P<str>"(?:[^"\\]|\\.)*")
 | (?P<op><<=|>>=|\.\.=|<<|>>|<=|>=|==|!=|&&|\|\||\+=|-=|\*=|\|=|&=|\^=|->|=>|::|\.\.|[-+*/%&|^!<>=.,;:(){}\[\]#@?'])
''', re.X | re.S)

def lex(src):
    out = []; i = 0
    while i < len(src):
        m = TOK.match(src, i)
        if not m:
            raise TErr('cannot lex at %r' % src[i:i + 30])
        i = m.end()
        if m.group('ws'):
            continue
        if m.group('num'):
            s = m.group('num').replace('_', '')
            v = int(s, 16) if s.startswith('0x') else int(s[2:], 2) if s.startswith('0b') else int(s)
            out.append(('num', v, m.group('suf')))
        elif m.group('id'):
            out.append(('id', m.group('id')))
        elif m.group('str'):
            out.append(('str', m.group('str')))
        else:
            out.append(('op', m.group('op')))
    return out

# ------------------------------------------------------------------ locating a function
def find_fn(src, name, impl=None, trait=None):
    """Returns (params_src, ret_src, body_src, generics_src). Skips items under #[cfg(target_pointer_width = "32")].
    `trait`: look in `impl<..> Trait for Impl { .. }` instead of the inherent impl blocks."""
    scope = src
    if impl:
        ms = list(re.finditer(r'^impl(?:<[^>]*>)?\s+%s%s\s*\{' % (re.escape(trait) + r'\s+for\s+' if trait else '', re.escape(impl)), src, re.M))
        if not ms:
            raise TErr('impl %s not found' % impl)
        # all inherent impl blocks of that type in the file, concatenated
        scope = ''
        for m in ms:
            k = m.end(); depth = 1
            while depth and k < len(src):
                depth += (src[k] == '{') - (src[k] == '}'); k += 1
            scope += src[m.end():k - 1] + '\n'
    for m in re.finditer(r'(?:pub(?:\([a-z]+\))?\s+)?(?:const\s+)?fn\s+%s\s*(<[^<>()]*>)?\s*\(' % re.escape(name), scope):
        pre = scope[:m.start()]
        # attributes directly above
        attrs = re.findall(r'#\[[^\]]*\]', pre[pre.rfind('}') + 1 if '}' in pre[-400:] else -400:][-400:])
        if any('target_pointer_width = "32"' in a for a in attrs[-4:]):
            continue
        i = m.end(); depth = 1
        while depth:
            c = scope[i]
            depth += (c == '(') - (c == ')'); i += 1
        params = scope[m.end():i - 1]
        # the body starts at the first `{` outside angle brackets (a return type may contain `Uint<{ LIMBS }>`)
        j = i; adepth = 0
        while not (scope[j] == '{' and adepth == 0):
            if scope[j] == '<': adepth += 1
            if scope[j] == '>' and scope[j - 1] != '-': adepth -= 1
            j += 1
        ret = scope[i:j].strip()
        ret = ret[2:].strip() if ret.startswith('->') else ''
        k = j + 1; depth = 1
        while depth:
            c = scope[k]
            depth += (c == '{') - (c == '}'); k += 1
        return params, ret, scope[j + 1:k - 1], m.group(1)
    raise TErr('fn %s not found' % name)

# ------------------------------------------------------------------ types
ALIAS = {'Word': 'u64', 'WideWord': 'u128', 'usize': 'u64'}
BITS = {'u8': 8, 'u16': 16, 'u32': 32, 'u64': 64, 'u128': 128, 'choice': 64, 'limb': 64}
SBITS = {'i8': 8, 'i16': 16, 'i32': 32, 'i64': 64, 'i128': 128}     # signed machine integers: a Z in [-2^(w-1), 2^(w-1))
STRUCTS = {'Reciprocal': [('divisor_normalized', 'u64'), ('shift', 'u32'), ('reciprocal', 'u64')]}

LISTS = ('arr', 'slice', 'int', 'warr', 'unsat', 'wslice', 'bslice', 'bstr')      # all `list Z` in Coq; they differ in the methods / element type they have
FILE_ALIASES = [{}]  # `type NAME = T;` items of the source file of the function being translated
WRAPPERS = ('NonZero', 'Odd')                # struct NonZero<T>(T), struct Odd<T>(T): erased newtypes, `.0` gives the T
CG = [None]          # name of the const generic of the free function being translated (`fn f<const L: usize>`); None: LIMBS

EXTRA_CG = []        # method-level const generics of the extern signature being read (`fn split_mul<const RHS_LIMBS: usize>`)

def cgname():
    return CG[0] or 'LIMBS'

def parse_type(s, selfty):
    s = s.strip()
    s = re.sub(r"^&\s*(mut\s+)?", '', s)
    if s.startswith('('):
        inner = s[1:-1]
        parts = [p for p in split_top(inner) if p.strip()]
        return ('tuple', [parse_type(p, selfty) for p in parts])
    g = re.escape(cgname())
    for x in EXTRA_CG:
        # a method-level const generic of an EXTERN signature, read at the instance where it equals the const generic of the impl
        s = re.sub(r'\b%s\b' % re.escape(x), cgname(), s)
    s = re.sub(r'<\s*\{\s*(%s)\s*\}\s*>' % g, r'<\1>', s)          # Uint<{ LIMBS }>: a braced const argument
    if re.fullmatch(r'\[\s*Limb\s*;\s*%s\s*\]' % g, s) or re.fullmatch(r'Uint\s*<\s*%s\s*>' % g, s):
        return 'arr'
    if re.fullmatch(r'\[\s*Limb\s*\]', s):
        return 'slice'
    if re.fullmatch(r'\[\s*(Word|u64)\s*;\s*%s\s*\]' % g, s):
        return 'warr'
    if re.fullmatch(r'\[\s*(Word|u64)\s*\]', s):
        return 'wslice'         # &[Word] / &[u64]: a slice of words
    if re.fullmatch(r'\[\s*u8\s*\]', s):
        return 'bslice'         # &[u8]: a slice of bytes
    if re.fullmatch(r'UnsatInt\s*<\s*%s\s*>' % g, s):
        return 'unsat'          # struct UnsatInt<LIMBS>(pub [u64; LIMBS])
    if re.fullmatch(r'Int\s*<\s*%s\s*>' % g, s):
        return 'int'
    m = re.fullmatch(r'(%s)\s*<(.*)>' % '|'.join(WRAPPERS), s, re.S)
    if m:
        return ('wrap', m.group(1), parse_type(m.group(2), selfty))
    m = re.fullmatch(r'ConstCtOption\s*<(.*)>', s, re.S)
    if m:
        return ('ctopt', parse_type(m.group(1), selfty))
    if s == 'T' and selfty == ('ctopt', 'T'):
        return 'T'              # the type parameter of `impl<T> ConstCtOption<T>`
    s = ALIAS.get(s, s)
    if s == 'Self':
        return selfty
    if s == 'ConstChoice':
        return 'choice'
    if s == 'Limb':
        return 'limb'
    if s in BITS or s in SBITS or s == 'bool' or s == 'str':
        return s
    m = re.fullmatch(r'\[\s*(u8|u16|u32|u64)\s*;\s*(\d+)\s*\]', s)
    if m:
        return ('fixarr', m.group(1), int(m.group(2)))      # [u8; 2]: a list of that many integers
    if s in STRUCTS:
        return ('struct', s)
    m = re.fullmatch(r'\[(.+);\s*(\d+)\s*\]', s, re.S)
    if m:
        # [T; k] with a literal k: T a machine integer (signed too) or again such an array ([[i64; 2]; 2])
        el = parse_type(m.group(1), selfty)
        if not (el in SBITS or el in ('u8', 'u16', 'u32', 'u64', 'u128') or (isinstance(el, tuple) and el[0] == 'fixarr')):
            raise TErr('array of %s' % (el,))
        return ('fixarr', el, int(m.group(2)))
    if s in FILE_ALIASES[0]:
        return parse_type(FILE_ALIASES[0][s], selfty)       # `type Matrix = [[i64; 2]; 2];` in the same file
    raise TErr('unsupported type %r' % s)

def split_top(s):
    out = []; depth = 0; cur = ''
    for c in s:
        if c in '(<[': depth += 1
        if c in ')>]': depth -= 1
        if c == ',' and depth == 0:
            out.append(cur); cur = ''
        else:
            cur += c
    out.append(cur)
    return out

def coq_type(t):
    if isinstance(t, tuple) and t[0] == 'tuple':
        return '(' + ' * '.join(coq_type(x) for x in t[1]) + ')'
    if isinstance(t, tuple) and t[0] == 'struct':
        return 'g_' + t[1]
    if t in LISTS:
        return 'list Z'
    if isinstance(t, tuple) and t[0] == 'arrk':
        return 'list Z'            # Uint<k> / [Limb; k] with a literal k
    if isinstance(t, tuple) and t[0] == 'ctopt':
        return '(%s * Z)' % coq_type(t[1])
    if isinstance(t, tuple) and t[0] == 'wrap':
        return coq_type(t[2])
    if isinstance(t, tuple) and t[0] == 'fixarr':
        return 'list Z' if not isinstance(t[1], tuple) else 'list (%s)' % coq_type(t[1])
    if isinstance(t, tuple) and t[0] == 'option':
        return 'option %s' % coq_type(t[1])
    if t == 'T':
        return 'T'
    if t == 'str':
        return 'unit'            # &str (panic messages): erased
    return 'bool' if t == 'bool' else 'Z'

def type_owner(t):
    """the Rust spelling of a type, as it appears in the header of the impl block that holds its methods"""
    if isinstance(t, tuple) and t[0] == 'wrap': return '%s<%s>' % (t[1], type_owner(t[2]))
    if isinstance(t, tuple) and t[0] == 'ctopt': return 'ConstCtOption<%s>' % type_owner(t[1])
    if isinstance(t, tuple) and t[0] == 'tuple': return '(%s)' % ', '.join(type_owner(x) for x in t[1])
    r = {'choice': 'ConstChoice', 'limb': 'Limb', 'arr': 'Uint<LIMBS>', 'int': 'Int<LIMBS>', 'unsat': 'UnsatInt<LIMBS>'}.get(t)
    if r is None: raise TErr('no impl block for type %s' % (t,))
    return r

def is_generic(owner):
    """impl blocks generic over LIMBS (`impl<const LIMBS: usize> Uint<LIMBS>`, `.. ConstCtOption<Uint<LIMBS>>`): their items
    take (LIMBS : nat) first"""
    return bool(owner) and 'LIMBS' in owner

def subst_len(t, k):
    """the type t of a function generic over the limb count, at the instance k (a literal): Uint<LIMBS> -> Uint<k>"""
    if t == 'arr': return ('arrk', k)
    if t == 'warr': return ('fixarr', 'u64', k)
    if isinstance(t, tuple) and t[0] == 'tuple': return ('tuple', [subst_len(u, k) for u in t[1]])
    if isinstance(t, tuple) and t[0] == 'wrap': return ('wrap', t[1], subst_len(t[2], k))
    if isinstance(t, tuple) and t[0] == 'ctopt': return ('ctopt', subst_len(t[1], k))
    if t in ('slice', 'int'): raise TErr('limb-count instance of the type %s' % t)
    return t

def lit_len(pt, t):
    """the literal limb count k when an argument of type t = Uint<k> / [Limb; k] / [Word; k] meets a parameter of type
    pt = Uint<LIMBS> / [Limb; LIMBS] / [Word; LIMBS] (through NonZero / Odd), else None"""
    if pt == 'arr' and isinstance(t, tuple) and t[0] == 'arrk': return t[1]
    if pt == 'warr' and isinstance(t, tuple) and t[0] == 'fixarr' and t[1] == 'u64': return t[2]
    if isinstance(pt, tuple) and pt[0] == 'wrap' and isinstance(t, tuple) and t[0] == 'wrap' and pt[1] == t[1]:
        return lit_len(pt[2], t[2])
    return None

def subst_T(t, x):
    if t == 'T': return x
    if isinstance(t, tuple) and t[0] == 'ctopt': return ('ctopt', subst_T(t[1], x))
    if isinstance(t, tuple) and t[0] == 'tuple': return ('tuple', [subst_T(u, x) for u in t[1]])
    return t

def dummy(t):
    """the value a diverging (`panic!`) branch is given: panic_ <this>"""
    if isinstance(t, tuple) and t[0] == 'tuple':
        return '(' + ', '.join(dummy(x) for x in t[1]) + ')'
    if t in LISTS:
        return 'nil'
    if isinstance(t, tuple) and t[0] == 'ctopt':
        return '(%s, 0)' % dummy(t[1])
    if isinstance(t, tuple) and t[0] == 'wrap':
        return dummy(t[2])
    if isinstance(t, tuple) and t[0] == 'fixarr':
        return '(repeat %s %d)' % (dummy(t[1]) if isinstance(t[1], tuple) else '0', t[2])
    if t in SBITS:
        return '0'
    if t == 'bool':
        return 'false'
    if t in BITS:
        return '0'
    raise TErr('no dummy value of type %s' % (t,))

# ------------------------------------------------------------------ parser (Pratt)
PREC = {'||': 1, '&&': 2, '==': 3, '!=': 3, '<': 3, '<=': 3, '>': 3, '>=': 3, '|': 4, '^': 5, '&': 6, '<<': 7, '>>': 7,
        '+': 8, '-': 8, '*': 9, '/': 9, '%': 9}

class P:
    def __init__(self, toks, cg='LIMBS'):
        self.t = toks; self.i = 0
        self.cg = cg                  # the const generic in scope: the only generic argument a turbofish may carry
    def peek(self, k=0):
        return self.t[self.i + k] if self.i + k < len(self.t) else ('eof',)
    def next(self):
        x = self.peek(); self.i += 1; return x
    def isop(self, o, k=0):
        x = self.peek(k); return x[0] == 'op' and x[1] == o
    def isid(self, s=None, k=0):
        x = self.peek(k); return x[0] == 'id' and (s is None or x[1] == s)
    def expect(self, o):
        if not self.isop(o):
            raise TErr('expected %r, got %r' % (o, self.peek()))
        self.i += 1
    # ---- expressions
    def expr(self, minp=0):
        l = self.unary()
        while True:
            x = self.peek()
            if x[0] == 'id' and x[1] == 'as':
                self.next(); l = ('cast', l, self.type_src()); continue
            if x[0] == 'op' and x[1] in PREC and PREC[x[1]] >= minp:
                # `<` could open generics; not in this subset
                op = x[1]; self.next()
                r = self.expr(PREC[op] + 1)
                l = ('bin', op, l, r); continue
            return l
    def type_src(self):
        if self.isop('('):
            depth = 0; s = ''
            while True:
                x = self.next(); s += str(x[1])
                if x == ('op', '('): depth += 1
                if x == ('op', ')'):
                    depth -= 1
                    if depth == 0: return s
        x = self.next()
        if x[0] != 'id':
            raise TErr('type expected, got %r' % (x,))
        return x[1]
    def unary(self):
        if self.isop('!'):
            self.next(); return ('un', '!', self.unary())
        if self.isop('-'):
            self.next(); return ('un', '-', self.unary())
        if self.isop('&'):
            self.next()
            if self.isid('mut'):
                self.next(); return ('mutref', self.unary())
            return self.unary()
        if self.isop('*'):
            self.next(); return self.unary()
        return self.postfix(self.atom())
    def args(self):
        self.expect('('); a = []
        while not self.isop(')'):
            a.append(self.expr())
            if self.isop(','): self.next()
        self.expect(')'); return a
    def atom(self):
        x = self.next()
        if x[0] == 'num':
            return ('num', x[1], x[2])
        if x[0] == 'str':
            return ('strlit',)
        if x == ('op', '['):
            e1 = self.expr()
            if self.isop(','):
                # array literal `[e1, e2, ..]`
                es = [e1]
                while self.isop(','):
                    self.next()
                    if self.isop(']'): break
                    es.append(self.expr())
                self.expect(']'); return ('arrlit', es)
            self.expect(';'); e2 = self.expr(); self.expect(']')
            return ('repeat', e1, e2)
        if x == ('op', '{'):
            # block expression `{ s1; ..; e }`
            ss = self.block(); self.expect('}')
            return ('block', ss)
        if x == ('op', '('):
            es = []
            if self.isop(')'):
                self.next(); return ('tuple', [])
            es.append(self.expr()); tup = False
            while self.isop(','):
                tup = True; self.next()
                if self.isop(')'): break
                es.append(self.expr())
            self.expect(')')
            return ('tuple', es) if tup else es[0]
        if x == ('id', 'if'):
            return self.if_chain()
        if x[0] == 'id':
            path = [x[1]]
            while self.isop('::'):
                self.next()
                if self.isop('<'):
                    # turbofish `Uint::<LIMBS>::new`: the const generic itself (dropped), or ONE type `NonZero::<Uint<LIMBS>>::f`:
                    # the path element becomes the spelled type `NonZero<Uint<LIMBS>>` (the header of the impl block that holds f)
                    self.next()
                    if self.isid(self.cg) and self.isop('>', 1):
                        self.next(); self.next(); continue
                    depth = 1; txt = ''
                    while depth:
                        y = self.next()
                        if y[0] == 'eof' or y[0] not in ('id', 'op') or (y[0] == 'op' and y[1] not in ('<', '>', '>>')):
                            raise TErr('generic argument other than %s / a type' % self.cg)
                        if y == ('op', '<'): depth += 1
                        if y == ('op', '>'): depth -= 1
                        if y == ('op', '>>'):
                            depth -= 2
                            if depth < 0: raise TErr('unbalanced generic arguments')
                            txt += '>' if depth == 0 else '>>'; continue
                        if depth: txt += str(y[1])
                    path[-1] = '%s<%s>' % (path[-1], txt); continue
                y = self.next()
                if y[0] != 'id': raise TErr('bad path')
                path.append(y[1])
            if self.isop('('):
                return ('call', path, self.args())
            if self.isop('{') and path[-1] in ('Self', 'Uint', 'ConstCtOption') + tuple(STRUCTS):
                self.next(); fields = []
                while not self.isop('}'):
                    f = self.next()[1]
                    if self.isop(':'):
                        self.next(); fields.append((f, self.expr()))
                    else:
                        fields.append((f, ('var', f)))
                    if self.isop(','): self.next()
                self.expect('}')
                return ('struct', path[-1], fields)
            return ('var', path[0]) if len(path) == 1 else ('path', path)
        raise TErr('unexpected token %r' % (x,))
    def postfix(self, e):
        while self.isop('.') or self.isop('['):
            if self.isop('['):
                self.next(); ix = self.expr(); self.expect(']')
                e = ('index', e, ix); continue
            self.next(); x = self.next()
            name = str(x[1])
            if self.isop('('):
                e = ('mcall', e, name, self.args())
            else:
                e = ('field', e, name)
        return e
    def if_chain(self):
        """after `if`: cond { block } [else { block } | else if ...] -> ('if', cond, then_stmts, else_stmts or None)"""
        c = self.expr(); self.expect('{'); a = self.block(); self.expect('}')
        b = None
        if self.isid('else'):
            self.next()
            if self.isid('if'):
                self.next(); b = [self.as_stmt(self.if_chain())]
            else:
                self.expect('{'); b = self.block(); self.expect('}')
        return ('if', c, a, b)
    @staticmethod
    def as_stmt(node):
        """an `if` whose branches end in an expression is a value (tail expression); otherwise a statement"""
        if node[2] and node[2][-1][0] == 'ret':
            return ('ret', node)
        return node
    @staticmethod
    def place(pl):
        """x | x[i] | x.limbs[i] | x[i].0 | x.limbs[i].0 -> ('pvar', x) / ('pidx', x, i)"""
        if pl[0] == 'var':
            return ('pvar', pl[1])
        if pl[0] == 'field' and pl[2] == '0':
            pl = pl[1]
        if pl[0] == 'index':
            base = pl[1]
            if base[0] == 'field' and base[2] in ('limbs', '0'):
                base = base[1]          # x.limbs[i] (Uint) / x.0[i] (UnsatInt): the emitter checks the type of x
            if base[0] == 'var':
                return ('pidx', base[1], pl[2])
        raise TErr('unsupported assignment target')
    def semi(self):
        """`;`, optional before the closing brace of a block"""
        if self.isop('}'): return
        self.expect(';')
    # ---- statements
    def pattern(self):
        if self.isop('('):
            self.next(); ps = []
            while not self.isop(')'):
                ps.append(self.pattern())
                if self.isop(','): self.next()
            self.next(); return ('tup', ps)
        if self.isid('mut'): self.next()
        x = self.next()
        if x[0] != 'id': raise TErr('bad pattern %r' % (x,))
        return ('id', x[1])
    def block(self):
        """statements up to the closing brace / eof; returns list of stmts"""
        out = []
        while not (self.peek()[0] == 'eof' or self.isop('}')):
            if self.isop('#'):
                self.next(); self.expect('['); depth = 1; attr = []
                while depth:
                    y = self.next(); depth += (y == ('op', '[')) - (y == ('op', ']')); attr.append(y[1])
                if attr[:-1] == ['cfg', '(', 'target_pointer_width', '=', '"32"', ')']:
                    # `#[cfg(target_pointer_width = "32")] { .. }` : the block is not part of the program on a 64-bit target
                    if not self.isop('{'): raise TErr('#[cfg(target_pointer_width = "32")] on something other than a block')
                    self.next(); depth = 1
                    while depth:
                        y = self.next()
                        if y[0] == 'eof': raise TErr('unbalanced block')
                        depth += (y == ('op', '{')) - (y == ('op', '}'))
                continue
            if self.isid('loop') and self.isop('{', 1):
                self.next(); self.next(); b = self.block(); self.expect('}')
                out.append(('loop', b)); continue
            if self.isid('break') and (self.isop(';', 1) or self.isop('}', 1)):
                self.next(); self.semi(); out.append(('break',)); continue
            if (self.isid('fn') and self.peek(1)[0] == 'id') or (self.isid('const') and self.isid('fn', 1)):
                # a nested function item `const fn name(a: T, ..) -> R { .. }` (it cannot capture local variables)
                if self.isid('const'): self.next()
                self.next(); name = self.next()[1]; self.expect('('); ps = []
                while not self.isop(')'):
                    if self.isid('mut'): self.next()
                    pn = self.next()
                    if pn[0] != 'id': raise TErr('parameter of the nested function %s' % name)
                    self.expect(':'); ps.append((pn[1], self.type_src()))
                    if self.isop(','): self.next()
                self.next(); rt = None
                if self.isop('->'):
                    self.next(); rt = self.type_src()
                self.expect('{'); b = self.block(); self.expect('}')
                out.append(('fn', name, ps, rt, b)); continue
            if self.isid('debug_assert') or self.isid('debug_assert_eq') or self.isid('debug_assert_ne') or \
                    (self.isid('assert') and self.isop('!', 1)):
                self.next(); self.expect('!'); self.expect('('); depth = 1
                while depth:
                    y = self.next(); depth += (y == ('op', '(')) - (y == ('op', ')'))
                self.expect(';'); continue
            if self.isid('let'):
                self.next(); pat = self.pattern(); ty = None
                if self.isop(':'):
                    self.next(); ty = self.type_src()
                if self.isop(';'):
                    # `let mut x;` : declared, assigned later
                    self.next(); out.append(('let', pat, ty, None)); continue
                self.expect('='); e = self.expr(); self.expect(';')
                out.append(('let', pat, ty, e)); continue
            if self.isid('while'):
                self.next(); c = self.expr(); self.expect('{'); b = self.block(); self.expect('}')
                out.append(('while', c, b)); continue
            if self.isid('if'):
                self.next(); out.append(self.as_stmt(self.if_chain()))
                if self.isop(';'): self.next()
                continue
            if self.isid('return'):
                self.next(); e = self.expr(); self.semi()
                out.append(('return', e)); continue
            if self.isid('panic') and self.isop('!', 1):
                self.next(); self.expect('!'); self.expect('('); depth = 1
                while depth:
                    y = self.next(); depth += (y == ('op', '(')) - (y == ('op', ')'))
                if self.isop(';'): self.next()
                out.append(('panic',)); continue
            if self.isid() and self.isop('[', 1):
                # limbs[i] = e;
                save = self.i
                name = self.next()[1]; self.next(); ix = self.expr()
                if self.isop(']') and self.isop('=', 1):
                    self.next(); self.next(); e = self.expr(); self.semi()
                    out.append(('iassign', name, ix, e)); continue
                self.i = save
            if self.isid() and self.peek(1)[0] == 'op' and self.peek(1)[1] in ('=', '+=', '-=', '*=', '|=', '&=', '^=', '<<=', '>>='):
                name = self.next()[1]; op = self.next()[1]; e = self.expr(); self.semi()
                out.append(('assign', name, None if op == '=' else op[:-1], e)); continue
            e = self.expr()
            if self.isop('='):
                # assignment to a place: x[i] = e / x.limbs[i] = e / x[i].0 = e / x.limbs[i].0 = e
                self.next(); rhs = self.expr(); self.semi()
                if e[0] == 'tuple':
                    # destructuring assignment `(a[i], c) = rhs;`
                    out.append(('tassign', [self.place(x) for x in e[1]], rhs)); continue
                pl = self.place(e)
                if pl[0] == 'pidx':
                    out.append(('iassign', pl[1], pl[2], rhs)); continue
                raise TErr('unsupported assignment target')
            if self.peek()[0] == 'op' and self.peek()[1] in ('+=', '-=', '*=', '|=', '&=', '^=', '<<=', '>>='):
                # compound assignment to a place: x[i] op= e / x.limbs[i].0 op= e  ->  place = place op e
                op = self.next()[1][:-1]; rhs = self.expr(); self.semi()
                pl = self.place(e)
                if pl[0] == 'pidx':
                    out.append(('iassign', pl[1], pl[2], ('bin', op, e, rhs))); continue
                raise TErr('unsupported assignment target')
            if self.isop(';'):
                # expression statement: only a call of a function with `&mut` parameters is one (checked by the emitter)
                self.next(); out.append(('expr', e)); continue
            out.append(('ret', e))
        return out

# ------------------------------------------------------------------ emission
CONSTS = {('Word', 'BITS'): ('64', 'u32'), ('WideWord', 'BITS'): ('128', 'u32'), ('u32', 'BITS'): ('32', 'u32'),
          ('u64', 'BITS'): ('64', 'u32'), ('Limb', 'BITS'): ('64', 'u32'), ('Word', 'MAX'): ('(2 ^ 64 - 1)', 'u64'),
          ('u32', 'MAX'): ('(2 ^ 32 - 1)', 'u32'), ('WideWord', 'MAX'): ('(2 ^ 128 - 1)', 'u128'),
          ('Self', 'FALSE'): ('0', 'choice'), ('Self', 'TRUE'): ('(2 ^ 64 - 1)', 'choice'),
          ('ConstChoice', 'FALSE'): ('0', 'choice'), ('ConstChoice', 'TRUE'): ('(2 ^ 64 - 1)', 'choice'),
          ('Limb', 'ZERO'): ('0', 'limb'), ('Limb', 'ONE'): ('1', 'limb'), ('Limb', 'MAX'): ('(2 ^ 64 - 1)', 'limb'),
          ('Word', 'ZERO'): ('0', 'u64'), ('Word', 'MIN'): ('0', 'u64'), ('u64', 'MAX'): ('(2 ^ 64 - 1)', 'u64')}
CONSTS[('Limb', 'BYTES')] = ('8', 'u64')           # pub const BYTES: usize = 8 (64-bit target), like Limb::BITS above
ARR_CONSTS = {'ZERO': '(repeat 0 LIMBS)', 'MAX': '(repeat (2 ^ 64 - 1) LIMBS)'}

def const_len(e):
    """the value of an array-length expression that is a literal or a usize constant of the crate with a known value, else None"""
    if e[0] == 'num' and e[2] in (None, 'usize'): return e[1]
    if e[0] == 'path' and tuple(e[1][-2:]) in CONSTS and CONSTS[tuple(e[1][-2:])][1] == 'u64' and CONSTS[tuple(e[1][-2:])][0].isdigit():
        return int(CONSTS[tuple(e[1][-2:])][0])
    return None

def fv(e, acc):
    """variables read by an expression"""
    if isinstance(e, tuple) and len(e) == 2 and e[0] == 'var':
        acc.add(e[1])
    elif isinstance(e, (tuple, list)):
        for x in e: fv(x, acc)
    return acc

GENERIC = ('Uint<LIMBS>', 'Int<LIMBS>', 'UnsatInt<LIMBS>')     # impl blocks generic over LIMBS: their items take (LIMBS : nat) first
OWNERS = ('ConstChoice', 'Limb', 'Reciprocal', 'ConstCtOption<T>') + GENERIC
CONST_SIGS = {}      # 'Owner::NAME' -> (coq name, type) for the associated constants translated from the source
MUTS = {}            # key -> names of the `&mut` parameters (their final values are the function's result)
MUTPOS = {}          # key -> positions of the `&mut` parameters in the parameter list
MUTRET = {}          # key -> declared return type of a function that has `&mut` parameters AND returns a value
FREE_GENERIC = set() # keys of the free functions `fn f<const L: usize>(..)`: they take (L : nat) first
EXT_USERS = {}       # key -> group file, for the extern functions and every function that (transitively) calls one
CUR_GROUP = [None]   # the group file being generated

def mutrefs(e, acc):
    """variables borrowed `&mut x` / `&mut x.limbs` inside an expression (they are rebound by the call that takes them)"""
    if isinstance(e, tuple) and len(e) == 2 and e[0] == 'mutref':
        b = e[1]
        if b[0] == 'field' and b[2] == 'limbs': b = b[1]
        if b[0] == 'var' and b[1] not in acc: acc.append(b[1])
    elif isinstance(e, (tuple, list)):
        for x in e: mutrefs(x, acc)
    return acc

REPO = ['/repo']
_UA = {}
def uint_alias(name):
    """the limb count k of a type alias `U<bits>` of the crate: an entry `(U<bits>, <bits>, ..)` of an `impl_uint_aliases!` invocation in
    src/uint.rs declares `pub type U<bits> = Uint<{ nlimbs!(<bits>) }>`, nlimbs!(b) = ceil(b / Limb::BITS) = ceil(b / 64); None if there is
    no such entry"""
    if not _UA:
        _UA[''] = None
        try:
            src = open(os.path.join(REPO[0], 'src', 'uint.rs')).read()
        except OSError:
            src = ''
        for m in re.finditer(r'impl_uint_aliases!\s*\{(.*?)\n\}', src, re.S):
            for n, b in re.findall(r'\(\s*(U\d+)\s*,\s*(\d+)\s*,', m.group(1)):
                _UA[n] = (int(b) + 63) // 64
    return _UA.get(name)

_WM = {}
def wrapper_methods(w):
    """names of all functions defined in ANY impl block (inherent or trait) of the wrapper type w (NonZero / Odd) in the crate:
    a method call on a wrapper value may be resolved through Deref only when the name is not among them"""
    if w not in _WM:
        names = set()
        for root, _, files in os.walk(os.path.join(REPO[0], 'src')):
            for f in files:
                if not f.endswith('.rs'): continue
                src = open(os.path.join(root, f)).read()
                for m in re.finditer(r'^\s*impl\b[^{;]*?\b%s\s*<[^{;]*\{' % re.escape(w), src, re.M):
                    k = m.end(); depth = 1
                    while depth and k < len(src):
                        depth += (src[k] == '{') - (src[k] == '}'); k += 1
                    names.update(re.findall(r'\bfn\s+(\w+)', src[m.end():k]))
        _WM[w] = names
    return _WM[w]

class Emitter:
    def owner(self, o):
        if o == 'Self':
            if isinstance(self.selfty, tuple) and self.selfty[0] == 'ctopt': return 'ConstCtOption<T>'
            return {'choice': 'ConstChoice', 'limb': 'Limb', 'arr': 'Uint<LIMBS>', 'int': 'Int<LIMBS>', 'unsat': 'UnsatInt<LIMBS>'}.get(self.selfty, self.selfname) or ''
        return {'Uint': 'Uint<LIMBS>', 'Int': 'Int<LIMBS>', 'ConstCtOption': 'ConstCtOption<T>', 'UnsatInt': 'UnsatInt<LIMBS>'}.get(o, o)
    def __init__(self, sigs, selfty, selfname, result=None, cg=None, ret_muts=None):
        self.sigs = sigs; self.selfty = selfty; self.selfname = selfname; self.const0 = {}
        self.result = result          # type of the value of the function body (with the final values of `&mut` parameters)
        self.ret_t = None             # type of the last tail expression emitted
        self.generic = is_generic(selfname)
        self.cg = cg or ('LIMBS' if self.generic else None)      # the const generic in scope (a nat in Coq)
        self.ret_muts = ret_muts      # `&mut` parameters of a function that also returns a value: result = (value, finals..)
        self.uninit = {}              # `let mut x;` : name -> placeholder id, until the first assignment fixes the type
        self.uninit_t = {}            # placeholder id -> type
        self.uid = 0
        self.uses_extern = False      # the body calls an extern function (or a function that does)
        self.mutparams = ()           # the `&mut [Limb]` parameters of the function being translated (they may be passed on)
        self.deferred = {}            # `let x = <untyped integer expression>;` : name -> (id, expression, env at the `let`)
        self.deferred_txt = {}        # id -> coq text, once the first typed use of x has fixed the type
        self.did = 0
        self.has_loop = False         # the body has a `loop { .. break .. }`: fuel parameter, result in `option`
    def isint(self, t):
        return t in BITS or t in SBITS
    def unify(self, a, b, what):
        if a == b or a is None or b is None:
            return a or b
        raise TErr('type mismatch in %s: %s vs %s' % (what, a, b))
    def emit(self, e, env, exp=None):
        """-> (coq, type); type None = untyped integer literal"""
        k = e[0]
        if k == 'num':
            t = e[2] and ALIAS.get(e[2], e[2])
            t = t or (exp if self.isint(exp) else None)
            return (str(e[1]) if e[1] < 2 ** 62 else '(%d)' % e[1]), t
        if k == 'var':
            if e[1] == 'self':
                return 'v_self', self.selfty
            if self.cg and e[1] == self.cg and self.cg not in env:
                return '(Z.of_nat %s)' % self.cg, 'u64'          # the const generic, a usize
            if e[1] not in env:
                raise TErr('unknown variable %s' % e[1])
            if env[e[1]] is None and self.isint(exp) and exp not in ('choice', 'limb'):
                env[e[1]] = exp          # `let mut carry = 1;` : the literal's type is fixed by its first typed use
                if e[1] in self.deferred:
                    did, dex, denv = self.deferred.pop(e[1])
                    dc, dt = self.emit(dex, denv, exp)
                    self.unify(dt, exp, 'the untyped `let %s`' % e[1])
                    self.deferred_txt[did] = dc
            return 'v_' + e[1], env[e[1]]
        if k == 'path':
            key = tuple(e[1][-2:])
            owner = self.owner(key[0])
            if owner + '::' + key[1] in CONST_SIGS:
                cname, cty = CONST_SIGS[owner + '::' + key[1]]
                return ('(%s %s)' % (cname, cgname()) if is_generic(owner) else cname), cty
            if key[1] == 'LIMBS' and is_generic(owner) and self.cg:
                return '(Z.of_nat %s)' % self.cg, 'u64'
            if key[0] in ('Self', 'Uint') and self.selfty == 'arr' and key[1] in ARR_CONSTS:
                return ARR_CONSTS[key[1]], 'arr'
            if key[0] == 'Uint' and (self.selfty == 'int' or (self.selfty is None and self.cg)) and key[1] in ARR_CONSTS:
                return ARR_CONSTS[key[1]].replace('LIMBS', cgname()), 'arr'
            if key[0] == 'Self' and self.selfty == 'limb' and ('Limb', key[1]) in CONSTS:
                return CONSTS[('Limb', key[1])]
            if key in CONSTS:
                return CONSTS[key]
            raise TErr('unknown path %s' % '::'.join(e[1]))
        if k == 'strlit':
            return 'tt', 'str'
        if k == 'tuple':
            exps = exp[1] if isinstance(exp, tuple) and exp[0] == 'tuple' and len(exp[1]) == len(e[1]) else [None] * len(e[1])
            parts = [self.emit(x, env, t) for x, t in zip(e[1], exps)]
            if any(t is None for _, t in parts):
                raise TErr('untyped literal in tuple')
            return '(' + ', '.join(c for c, _ in parts) + ')', ('tuple', [t for _, t in parts])
        if k == 'cast':
            to = parse_type(e[2], self.selfty)
            c, t = self.emit(e[1], env, None)
            if t is None:
                return c, to
            if t == 'bool':
                return '(b2z %s)' % c, to
            if not (self.isint(t) and self.isint(to)):
                raise TErr('cast %s -> %s' % (t, to))
            if to in SBITS:
                # to a signed type: the value is kept when it fits (widening; unsigned -> strictly wider signed), else it wraps
                # to two's complement at the target width
                fits = SBITS[t] <= SBITS[to] if t in SBITS else BITS[t] < SBITS[to]
                return (c if fits else '(swrap_ %d %s)' % (SBITS[to], c)), to
            if t in SBITS:
                # signed -> unsigned: sign-extend / truncate, then reinterpret = the residue mod 2^width
                return '(trunc_ %d %s)' % (BITS[to], c), to
            if BITS[to] < BITS[t]:
                return '(trunc_ %d %s)' % (BITS[to], c), to
            return c, to
        if k == 'un':
            c, t = self.emit(e[2], env, exp)
            if e[1] == '!':
                if t == 'bool':
                    return '(negb %s)' % c, 'bool'
                if t is None:
                    raise Untyped('! on untyped literal')
                if t in SBITS:
                    return '(snot_ %s)' % c, t
                return '(not_ %d %s)' % (BITS[t], c), t
            if e[1] == '-' and t in SBITS:
                return '(sneg_ %d %s)' % (SBITS[t], c), t
            raise TErr('unary %s' % e[1])
        if k == 'bin':
            op = e[1]
            if op in ('&&', '||'):
                a, ta = self.emit(e[2], env, 'bool'); b, tb = self.emit(e[3], env, 'bool')
                if ta != 'bool' or tb != 'bool': raise TErr('&&/|| on non-bool')
                return '(%s %s %s)' % ('andb' if op == '&&' else 'orb', a, b), 'bool'
            if op in ('<<', '>>'):
                a, ta = self.emit(e[2], env, exp)
                b, tb = self.emit(e[3], env, None)
                if ta is None: raise Untyped('shift of untyped literal')
                if ta in SBITS:
                    # signed: `<<` wraps to two's complement, `>>` is the arithmetic shift (floor division, as shr_ on a negative Z)
                    return ('(sshl_ %d %s %s)' % (SBITS[ta], a, b) if op == '<<' else '(shr_ %s %s)' % (a, b)), ta
                if op == '<<':
                    return '(shl_ %d %s %s)' % (BITS[ta], a, b), ta
                return '(shr_ %s %s)' % (a, b), ta
            cmp = op in ('==', '!=', '<', '<=', '>', '>=')
            a, ta = self.emit(e[2], env, None if cmp else exp)
            b, tb = self.emit(e[3], env, ta if ta else (None if cmp else exp))
            if ta is None and tb is not None:
                a, ta = self.emit(e[2], env, tb)
            t = self.unify(ta, tb, 'operator ' + op)
            if cmp:
                f = {'==': 'Z.eqb', '<': 'Z.ltb', '<=': 'Z.leb', '>': 'Z.gtb', '>=': 'Z.geb'}.get(op)
                if op == '!=':
                    return '(negb (Z.eqb %s %s))' % (a, b), 'bool'
                if t == 'bool': raise TErr('comparison of bools')
                return '(%s %s %s)' % (f, a, b), 'bool'
            if t is None:
                # constant expression of untyped literals: fold in Z (no wrap can be decided) -> keep symbolic, typed by context
                if exp is None or not self.isint(exp): raise Untyped('cannot type constant expression')
                t = exp
            if t == 'bool':
                f = {'&': 'andb', '|': 'orb', '^': 'xorb'}.get(op)
                if not f: raise TErr('bool op ' + op)
                return '(%s %s %s)' % (f, a, b), 'bool'
            if op in ('&', '|', '^'):
                return '(%s %s %s)' % ({'&': 'Z.land', '|': 'Z.lor', '^': 'Z.lxor'}[op], a, b), t
            if op in ('+', '-', '*') and t in SBITS:
                return '(%s %d %s %s)' % ({'+': 'sadd_', '-': 'ssub_', '*': 'smul_'}[op], SBITS[t], a, b), t
            if op in ('+', '-', '*'):
                return '(%s %d %s %s)' % ({'+': 'add_', '-': 'sub_', '*': 'mul_'}[op], BITS[t], a, b), t
            if op in ('/', '%') and t in BITS:
                return '(%s %s %s)' % ('div_' if op == '/' else 'rem_', a, b), t      # unsigned; a zero divisor panics in Rust
            raise TErr('operator %s' % op)
        if k == 'repeat':
            klen = const_len(e[2])
            if klen is not None:
                # `[e; K]` with K a literal or a usize constant of the crate with a known value (`Limb::BYTES`): [T; k], T a machine integer
                want = exp[1] if isinstance(exp, tuple) and exp[0] == 'fixarr' and not isinstance(exp[1], tuple) else None
                c, t = self.emit(e[1], env, want)
                if not (t in ('u8', 'u16', 'u32', 'u64', 'u128') or t in SBITS): raise TErr('array of %s with a literal length' % (t,))
                return '(repeat %s %d%%nat)' % (c, klen), ('fixarr', t, klen)
            if e[2] != ('var', cgname()): raise TErr('array length must be %s' % cgname())
            if e[1][0] == 'num' and e[1][2] is None and exp in (None, 'warr'):
                # `[0; LIMBS]`: a bare integer literal is not a Limb, this is an array of words
                return '(repeat %s %s)' % (self.emit(e[1], env, 'u64')[0], cgname()), 'warr'
            if exp == 'warr':
                # `[w; LIMBS]` where an array of words is expected ([u64; LIMBS])
                c, t = self.emit(e[1], env, 'u64')
                if t != 'u64': raise TErr('word array of %s' % (t,))
                return '(repeat %s %s)' % (c, cgname()), 'warr'
            c, t = self.emit(e[1], env, 'limb')
            if t not in ('limb', 'u64'): raise TErr('array of %s' % t)
            return '(repeat %s %s)' % (c, cgname()), 'arr'
        if k == 'arrlit':
            # `[e1, e2, ..]`: a list of words (or limbs) whose length is the literal count of elements
            want = exp[1] if isinstance(exp, tuple) and exp[0] == 'fixarr' else ('limb' if isinstance(exp, tuple) and exp[0] == 'arrk' else None)
            parts = [self.emit(x, env, want) for x in e[1]]
            ts = set(t for _, t in parts)
            if len(ts) != 1 or None in ts: raise TErr('array literal with elements of types %s' % (sorted(map(str, ts)),))
            t = ts.pop()
            if not (t in ('u8', 'u16', 'u32', 'u64', 'u128', 'limb') or t in SBITS or (isinstance(t, tuple) and t[0] == 'fixarr')):
                raise TErr('array literal of %s' % (t,))
            txt = '(' + ' :: '.join(c for c, _ in parts) + ' :: nil)'
            return txt, (('arrk', len(parts)) if t == 'limb' else ('fixarr', t, len(parts)))
        if k == 'block':
            # block expression: its `let`s are local; it may not assign a variable declared outside it
            out = [v for v in self.assigned(e[1], []) if v in env]
            if out: raise TErr('block expression that assigns the outer variable %s' % out[0])
            c = self.stmts(e[1], dict(env), exp, None)
            if c is None or self.ret_t is None: raise TErr('block expression without a value')
            return '(%s)' % c, self.ret_t
        if k == 'index':
            c, t = self.emit(e[1], env, None)
            fix = isinstance(t, tuple) and t[0] == 'fixarr'
            if isinstance(t, tuple) and t[0] == 'arrk': t = 'arr'         # [Limb; k] with a literal k: an element is a Limb
            if t not in ('arr', 'slice', 'warr', 'wslice', 'bslice') and not fix: raise TErr('indexing a %s' % (t,))
            ic, it = self.emit(e[2], env, 'u64')
            if it != 'u64': raise TErr('index of type %s' % (it,))
            if fix and isinstance(t[1], tuple):
                return '(nth (Z.to_nat %s) %s nil)' % (ic, c), t[1]          # an array of arrays: the element is a list
            return '(nth (Z.to_nat %s) %s 0)' % (ic, c), (t[1] if fix else 'u64' if t in ('warr', 'wslice') else 'u8' if t == 'bslice' else 'limb')
        if k == 'field':
            c, t = self.emit(e[1], env, None)
            if t == 'arr' and e[2] == 'limbs':
                return c, 'arr'
            if isinstance(t, tuple) and t[0] == 'arrk' and e[2] == 'limbs':
                return c, t                     # the limbs of a Uint<k> with a literal k: [Limb; k]
            if t in ('choice', 'limb') and e[2] == '0':
                return c, 'u64'
            if t == 'int' and e[2] == '0':
                return c, 'arr'                 # struct Int<LIMBS>(Uint<LIMBS>)
            if t == 'unsat' and e[2] == '0':
                return c, 'warr'                # struct UnsatInt<LIMBS>(pub [u64; LIMBS])
            if isinstance(t, tuple) and t[0] == 'wrap' and e[2] == '0':
                return c, t[2]                  # struct NonZero<T>(T) / Odd<T>(T)
            if isinstance(t, tuple) and t[0] == 'ctopt' and e[2] in ('value', 'is_some'):
                return ('(fst %s)' % c, t[1]) if e[2] == 'value' else ('(snd %s)' % c, 'choice')
            if isinstance(t, tuple) and t[0] == 'tuple' and e[2].isdigit():
                i = int(e[2]); n = len(t[1])
                if n != 2: raise TErr('tuple field on non-pair')
                return '(%s %s)' % ('fst' if i == 0 else 'snd', c), t[1][i]
            if isinstance(t, tuple) and t[0] == 'struct':
                for f, ft in STRUCTS[t[1]]:
                    if f == e[2]:
                        return '(g_%s_%s %s)' % (t[1], f, c), ft
            raise TErr('field .%s of %s' % (e[2], t))
        if k == 'struct' and (e[1] == 'Uint' or (e[1] == 'Self' and self.selfty == 'arr')):
            fs = dict(e[2])
            c, t = self.emit(fs['limbs'], env, 'arr')
            if t != 'arr': raise TErr('Uint { limbs } of %s' % (t,))
            return c, 'arr'
        if k == 'struct' and (e[1] == 'ConstCtOption' or (e[1] == 'Self' and isinstance(self.selfty, tuple) and self.selfty[0] == 'ctopt')):
            # struct ConstCtOption<T> { value: T, is_some: ConstChoice } is the pair (value, is_some)
            fs = dict(e[2])
            if sorted(fs) != ['is_some', 'value']: raise TErr('fields of ConstCtOption')
            want = exp[1] if isinstance(exp, tuple) and exp[0] == 'ctopt' else (self.selfty[1] if e[1] == 'Self' else None)
            c, t = self.emit(fs['value'], env, want)
            c2, t2 = self.emit(fs['is_some'], env, 'choice')
            self.unify(t2, 'choice', 'field is_some')
            return '(%s, %s)' % (c, c2), ('ctopt', t)
        if k == 'struct':
            name = self.selfname if e[1] == 'Self' else e[1]
            fs = dict(e[2]); parts = []
            for f, ft in STRUCTS[name]:
                c, t = self.emit(fs[f], env, ft)
                self.unify(t, ft, 'field ' + f); parts.append(c)
            return '(Build_g_%s %s)' % (name, ' '.join(parts)), ('struct', name)
        if k == 'call':
            path = e[1]
            if path[-1] in ('Self', 'ConstChoice', 'Limb') and len(e[2]) == 1 and len(path) == 1:
                ty = self.selfty if path[0] == 'Self' else ('choice' if path[0] == 'ConstChoice' else 'limb')
                if ty == 'int':
                    c, t = self.emit(e[2][0], env, 'arr')       # Int(Uint)
                    self.unify(t, 'arr', 'newtype constructor')
                    return c, ty
                if ty == 'unsat':
                    c, t = self.emit(e[2][0], env, 'warr')      # UnsatInt([u64; LIMBS])
                    self.unify(t, 'warr', 'newtype constructor')
                    return c, ty
                if isinstance(ty, tuple) and ty[0] == 'wrap' and path[0] == 'Self':
                    c, t = self.emit(e[2][0], env, ty[2])       # Self(x) in `impl NonZero<..>` / `impl Odd<..>`: erased
                    self.unify(t, ty[2], 'newtype constructor')
                    return c, ty
                if ty not in ('choice', 'limb'): raise TErr('tuple-struct constructor of %s' % (ty,))
                c, t = self.emit(e[2][0], env, 'u64')
                self.unify(t, 'u64', 'newtype constructor')
                return c, ty
            if len(path) == 1 and path[0] in WRAPPERS and len(e[2]) == 1:
                # NonZero(x) / Odd(x): the tuple-struct constructor of an erased newtype
                want = exp[2] if isinstance(exp, tuple) and exp[0] == 'wrap' and exp[1] == path[0] else None
                c, t = self.emit(e[2][0], env, want)
                if t is None: raise TErr('untyped literal in %s(..)' % path[0])
                return c, ('wrap', path[0], t)
            if len(path) == 2 and path[0] in ('Uint', 'Self') and path[1] == 'new' and len(e[2]) == 1 and (path[0] == 'Uint' or self.selfty == 'arr'):
                c, t = self.emit(e[2][0], env, 'arr')
                if t != 'arr': raise TErr('Uint::new of %s' % (t,))
                return c, 'arr'
            if len(path) == 1 and isinstance(env.get(path[0]), tuple) and env[path[0]][0] == 'localfn':
                # a call of a nested function item
                _, ptys, rty = env[path[0]]
                if len(ptys) != len(e[2]): raise TErr('arity of %s' % path[0])
                parts = []
                for a, pt in zip(e[2], ptys):
                    c, t = self.emit(a, env, pt); self.unify(t, pt, 'argument of ' + path[0]); parts.append(c)
                return '(v_%s %s)' % (path[0], ' '.join(parts)), rty
            if len(path) == 2 and path[1] in ('from_be_bytes', 'from_le_bytes') and len(e[2]) == 1 and \
                    ALIAS.get(path[0], path[0]) in ('u16', 'u32', 'u64', 'u128') and path[0] != 'usize':
                # uN::from_be_bytes([u8; N/8]) / from_le_bytes of core: the positional value of the bytes
                ty = ALIAS.get(path[0], path[0]); want = ('fixarr', 'u8', BITS[ty] // 8)
                c, t = self.emit(e[2][0], env, want)
                self.unify(t, want, 'argument of %s::%s' % (path[0], path[1]))
                return '(%s_ %s)' % (path[1], c), ty
            if len(path) == 2 and re.fullmatch(r'U\d+', path[0]) and uint_alias(path[0]) is not None:
                # `U64::from_u64(x)`: a function of `impl<const LIMBS: usize> Uint<LIMBS>` called through a type alias of the crate
                return self.call_at('Uint<LIMBS>::' + path[1], e[2], env, uint_alias(path[0]))
            return self.call(self.callkey(path), e[2], env)
        if k == 'mcall':
            c, t = self.emit(e[1], env, exp if e[2].startswith('wrapping_') else None)
            name = e[2]
            if (self.isint(t) and t not in ('choice', 'limb')) or t is None:
                if t is None: raise TErr('method %s on untyped literal' % name)
                if name == 'trailing_zeros' and not e[3]:
                    return '(ctz_ %d %s)' % (SBITS[t] if t in SBITS else BITS[t], c), 'u32'
                if t in SBITS:
                    # the wrapping methods of a signed type: two's complement wrap, as the operators
                    if name in ('wrapping_add', 'wrapping_sub', 'wrapping_mul') and len(e[3]) == 1:
                        b, tb = self.emit(e[3][0], env, t); self.unify(t, tb, name)
                        return '(%s %d %s %s)' % ({'wrapping_add': 'sadd_', 'wrapping_sub': 'ssub_', 'wrapping_mul': 'smul_'}[name], SBITS[t], c, b), t
                    if name == 'wrapping_neg' and not e[3]:
                        return '(sneg_ %d %s)' % (SBITS[t], c), t
                    raise TErr('method %s on the signed type %s' % (name, t))
                w = BITS[t]
                if name in ('wrapping_add', 'wrapping_sub', 'wrapping_mul'):
                    b, tb = self.emit(e[3][0], env, t); self.unify(t, tb, name)
                    return '(%s %d %s %s)' % ({'wrapping_add': 'add_', 'wrapping_sub': 'sub_', 'wrapping_mul': 'mul_'}[name], w, c, b), t
                if name == 'wrapping_neg':
                    return '(neg_ %d %s)' % (w, c), t
                if name == 'overflowing_add':
                    b, tb = self.emit(e[3][0], env, t); self.unify(t, tb, name)
                    return '(oadd_ %d %s %s)' % (w, c, b), ('tuple', [t, 'bool'])
                if name == 'leading_zeros':
                    return '(clz_ %d %s)' % (w, c), 'u32'
                if name in ('saturating_sub', 'div_ceil') and len(e[3]) == 1:
                    b, tb = self.emit(e[3][0], env, t); self.unify(t, tb, name)
                    return '(%s %s %s)' % ('satsub_' if name == 'saturating_sub' else 'div_ceil_', c, b), t
                raise TErr('method %s on %s' % (name, t))
            if t == 'choice':
                return self.call('ConstChoice::' + name, [('raw', c, t)] + e[3], env)
            if t == 'limb':
                return self.call('Limb::' + name, [('raw', c, t)] + e[3], env)
            if t == 'arr':
                return self.call('Uint<LIMBS>::' + name, [('raw', c, t)] + e[3], env)
            if t == 'int':
                return self.call('Int<LIMBS>::' + name, [('raw', c, t)] + e[3], env)
            if t == 'unsat':
                return self.call('UnsatInt<LIMBS>::' + name, [('raw', c, t)] + e[3], env)
            if t in ('slice', 'wslice', 'bslice', 'bstr') and name == 'len' and not e[3]:
                return '(Z.of_nat (length %s))' % c, 'u64'      # a usize
            if isinstance(t, tuple) and t[0] == 'arrk' and name == 'len' and not e[3]:
                return str(t[1]), 'u64'                         # [Limb; k].len() with a literal k: the usize k
            if t == 'bstr' and name == 'as_bytes' and not e[3]:
                return c, 'bslice'                              # s.as_bytes(): the UTF-8 bytes of the string, which is what a `bstr` is
            if isinstance(t, tuple) and t[0] == 'wrap':
                # NonZero<T> / Odd<T>: a method of the impl block spelled like the value's type (`impl<const LIMBS: usize>
                # NonZero<Int<LIMBS>>`); else, if NO impl block of the wrapper anywhere in the crate defines a function of that
                # name, the method of T through `impl<T> Deref for NonZero<T>` (auto-deref)
                key = type_owner(t) + '::' + name
                if key in self.sigs:
                    return self.call(key, [('raw', c, t)] + e[3], env)
                if name in wrapper_methods(t[1]):
                    raise TErr('method %s of %s is not translated' % (name, type_owner(t)))
                return self.emit(('mcall', ('raw', c, t[2]), name, e[3]), env, exp)
            if isinstance(t, tuple) and t[0] == 'ctopt':
                # the specialised impl block `impl ConstCtOption<NonZero<Limb>>` / `impl<const LIMBS: usize> ConstCtOption<Uint<LIMBS>>`,
                # else the generic `impl<T> ConstCtOption<T>`
                key = type_owner(t) + '::' + name
                return self.call(key if key in self.sigs else 'ConstCtOption<T>::' + name, [('raw', c, t)] + e[3], env)
            raise TErr('method %s on %s' % (name, t))
        if k == 'raw':
            return e[1], e[2]
        if k == 'mutref':
            raise TErr('`&mut` outside the argument list of a call that stands alone in a `let` / statement')
        if k == 'if':
            # if-expression: both branches are blocks ending in an expression of the same type
            cc, ct = self.emit(e[1], env, 'bool')
            if ct != 'bool': raise TErr('if condition of type %s' % (ct,))
            if not e[3]: raise TErr('if expression without else')
            if e[3] == [('panic',)] or e[2] == [('panic',)]:
                # `if c { e } else { panic!(..) }` (or the branches swapped): the diverging branch is panic_ D, D the default value of
                # the type of the other branch
                other = e[2] if e[3] == [('panic',)] else e[3]
                a = self.stmts(other, dict(env), exp, None); ta = self.ret_t
                if a is None or ta is None: raise TErr('if expression whose branch has no value')
                pd = '(panic_ %s)' % dummy(ta)
                return ('(if %s then %s else %s)' % ((cc, a, pd) if e[3] == [('panic',)] else (cc, pd, a))), ta
            a = self.stmts(e[2], dict(env), exp, None); ta = self.ret_t
            b = self.stmts(e[3], dict(env), exp if exp is not None else ta, None); tb = self.ret_t
            if a is None or b is None: raise TErr('if expression whose branch has no value')
            if ta is None and tb is not None:
                a = self.stmts(e[2], dict(env), tb, None); ta = self.ret_t
            t = self.unify(ta, tb, 'if branches')
            return '(if %s then %s else %s)' % (cc, a, b), t
        raise TErr('expression kind %s' % k)
    def callkey(self, path):
        if len(path) == 1:
            return path[0]
        owner = self.owner(path[-2])
        if '<' in path[-2] and owner + '::' + path[-1] in self.sigs:
            return owner + '::' + path[-1]           # `NonZero::<Uint<LIMBS>>::f`: the specialised impl block spelled like that
        return owner + '::' + path[-1] if owner in OWNERS else path[-1]
    def is_mut_call(self, e):
        if e is None or e[0] != 'call': return False
        if len(e[1]) == 1 and e[1][0] in ('Self', 'ConstChoice', 'Limb'): return False
        return bool(MUTS.get(self.callkey(e[1])))
    def borrowed(self, e, acc):
        """variables whose contents the calls of functions with `&mut` parameters inside e change: `&mut x` / `&mut x.limbs` /
        a `&mut [Limb]` parameter passed on (in order of occurrence)"""
        if isinstance(e, tuple) and len(e) == 3 and e[0] == 'call' and isinstance(e[1], list) and self.is_mut_call(e):
            key = self.callkey(e[1])
            for k in MUTPOS[key]:
                if k < len(e[2]) and e[2][k][0] == 'var' and e[2][k][1] in self.mutparams and e[2][k][1] not in acc:
                    acc.append(e[2][k][1])
        if isinstance(e, (tuple, list)):
            for x in e:
                if isinstance(x, (tuple, list)): self.borrowed(x, acc)
        return acc
    def mut_call(self, e, env):
        """`f(.., &mut x, .., &mut y.limbs, ..)` where f has `&mut` parameters -> (coq text of the call, declared return type
        or None, the variables x, y.. in parameter order: the caller rebinds them to the final contents); None if e is not
        such a call"""
        key = self.callkey(e[1])
        args = list(e[2]); names = []
        for k in MUTPOS[key]:
            if k >= len(args): raise TErr('arity of %s' % key)
            a = args[k]
            if a[0] == 'var' and a[1] in self.mutparams and env.get(a[1]) == 'slice':
                a = ('mutref', a)        # `f(z, ..)` where z is itself a `&mut [Limb]` parameter: an implicit reborrow `&mut *z`
            if a[0] != 'mutref': raise TErr('argument %d of %s must be `&mut x` / `&mut x.limbs` / a `&mut [Limb]` parameter' % (k, key))
            b = a[1]
            if b[0] == 'field' and b[2] == 'limbs' and b[1][0] == 'var' and env.get(b[1][1]) == 'arr': b = b[1]
            if not (b[0] == 'var' and env.get(b[1]) in ('arr', 'slice')):
                raise TErr('argument %d of %s must be `&mut x` / `&mut x.limbs`' % (k, key))
            if b[1] in names: raise TErr('the same variable borrowed twice')
            names.append(b[1]); args[k] = ('raw', 'v_' + b[1], 'slice')
        c, _ = self.call(key, args, env, mut_ok=True)
        return c, MUTRET.get(key), names
    def call(self, key, args, env, mut_ok=False):
        if key not in self.sigs:
            raise TErr('call to untranslated function %s' % key)
        if MUTS.get(key) and not mut_ok:
            raise TErr('call of %s (it has &mut parameters) in expression position' % key)
        cname, ptys, rty = self.sigs[key]
        if isinstance(rty, tuple) and rty[0] == 'option':
            raise TErr('call of %s, whose body has a `loop` (its translation takes fuel and returns an option)' % key)
        if len(ptys) != len(args):
            raise TErr('arity of %s' % key)
        if key in EXT_USERS:
            if EXT_USERS[key] != CUR_GROUP[0]:
                raise TErr('call of %s, which depends on an extern function of another group' % key)
            self.uses_extern = True
        generic = (is_generic(key.rsplit('::', 1)[0]) and '::' in key) or key in FREE_GENERIC
        parts = [cgname()] if is_generic(key.rsplit('::', 1)[0]) and '::' in key else []
        if key in FREE_GENERIC:
            parts = [self.cg]
        klit = None                    # the limb count of the callee inferred from an argument Uint<k> / [Word; k] with a literal k
        tv = None                      # instance of the type parameter T of `impl<T> ConstCtOption<T>`
        for a, pt in zip(args, ptys):
            if pt == 'T':
                c, t = self.emit(a, env, tv)
                if t is None: raise TErr('cannot infer the type parameter of ' + key)
                tv = self.unify(tv, t, 'type parameter of ' + key); parts.append(c); continue
            if tv is not None: pt = subst_T(pt, tv)
            c, t = self.emit(a, env, subst_len(pt, klit) if klit is not None and pt != 'slice' else pt)
            if pt == 'slice' and (t == 'arr' or (isinstance(t, tuple) and t[0] == 'arrk')): t = 'slice'       # &[Limb; N] coerces to &[Limb]
            if isinstance(pt, tuple) and pt[0] == 'ctopt' and pt[1] == 'T' and isinstance(t, tuple) and t[0] == 'ctopt':
                tv = self.unify(tv, t[1], 'type parameter of ' + key); pt = t
            if generic and lit_len(pt, t) is not None:
                if klit is not None and klit != lit_len(pt, t): raise TErr('conflicting limb counts for ' + key)
                klit = lit_len(pt, t); pt = t
            self.unify(t, pt, 'argument of ' + key); parts.append(c)
        if klit is not None:
            # `Uint::from_words([lo, hi])`, `f(&Uint<2>, ..)`: the callee's const generic is the literal length of the argument
            parts[0] = '%d%%nat' % klit; rty = subst_len(rty, klit)
        elif key in FREE_GENERIC and not self.cg:
            raise TErr('call of the generic function %s: the const generic cannot be inferred' % key)
        if tv is not None: rty = subst_T(rty, tv)
        return '(%s %s)' % (cname, ' '.join(parts)), rty
    def call_at(self, key, args, env, k):
        """a function of `impl<const LIMBS: usize> Uint<LIMBS>` at the literal limb count k (called through a type alias of the crate,
        `U64::from_u64(x)` with U64 = Uint<1>): the const generic is k, parameter and return types are read at that instance"""
        if key not in self.sigs: raise TErr('call to untranslated function %s' % key)
        if MUTS.get(key) or key in EXT_USERS: raise TErr('call of %s through a type alias' % key)
        cname, ptys, rty = self.sigs[key]
        if isinstance(rty, tuple) and rty[0] == 'option': raise TErr('call of %s, whose body has a `loop`' % key)
        if len(ptys) != len(args): raise TErr('arity of %s' % key)
        parts = ['%d%%nat' % k]
        for a, pt in zip(args, ptys):
            pt = subst_len(pt, k)
            c, t = self.emit(a, env, pt)
            self.unify(t, pt, 'argument of ' + key); parts.append(c)
        return '(%s %s)' % (cname, ' '.join(parts)), subst_len(rty, k)
    # ---- statements
    def pat(self, p, t, env):
        if p[0] == 'id':
            if p[1] != '_' and not p[1].startswith('_'):
                env[p[1]] = t
            else:
                env[p[1]] = t
            return 'v_' + p[1] if p[1] != '_' else '_'
        if not (isinstance(t, tuple) and t[0] == 'tuple' and len(t[1]) == len(p[1])):
            raise TErr('tuple pattern against %s' % (t,))
        return "'(" + ', '.join(self.pat(q, u, env).lstrip("'") for q, u in zip(p[1], t[1])) + ')'
    def assigned(self, stmts, acc, local=()):
        """variables declared outside `stmts` that `stmts` assigns (in order of first assignment); a `let` inside the block
        makes the name local from there on"""
        local = set(local)
        def hit(n):
            if n not in local and n not in acc: acc.append(n)
        for s in stmts:
            if s[0] == 'let':
                def names(p):
                    if p[0] == 'id': local.add(p[1])
                    else:
                        for q in p[1]: names(q)
                names(s[1])
            if s[0] in ('let', 'expr', 'assign'):
                ex = s[3] if s[0] in ('let', 'assign') else s[1]
                for n in mutrefs(ex, []): hit(n)
                for n in self.borrowed(ex, []): hit(n)
            if s[0] in ('assign', 'iassign'): hit(s[1])
            if s[0] == 'tassign':
                for pl in s[1]:
                    if pl != ('pvar', '_'): hit(pl[1])
            if s[0] == 'while': self.assigned(s[2], acc, local)
            if s[0] == 'loop': self.assigned(s[1], acc, local)
            if s[0] == 'if':
                self.assigned(s[2], acc, local); self.assigned(s[3] or [], acc, local)
        return acc
    def set_var(self, name, rhs, env):
        """x = rhs"""
        if name not in env: raise TErr('assignment to unknown %s' % name)
        t = env[name]
        if t == 'slice': raise TErr('assignment to the slice variable %s' % name)
        c, t2 = self.emit(rhs, env, t)
        if t is None and t2 is None: t2 = 'u64'      # a counter never used at another type: usize
        env[name] = self.unify(env[name], t2, 'assignment')
        if name in self.uninit and env[name] is not None:
            self.uninit_t[self.uninit.pop(name)] = env[name]
        self.const0[name] = False
        return 'let v_%s := %s in\n  ' % (name, c)
    def set_idx(self, name, ix, rhs, env):
        """x[ix] = rhs"""
        fix = isinstance(env.get(name), tuple) and env[name][0] == 'fixarr'
        if env.get(name) not in ('arr', 'slice', 'warr', 'unsat') and not fix: raise TErr('index assignment to %s' % name)
        ic, it = self.emit(ix, env, 'u64')
        if fix:
            # [T; k]: an element of type T; an array of arrays is a list of lists (updl_ : the polymorphic upd_)
            el = env[name][1]
            c, t2 = self.emit(rhs, env, el)
            self.unify(t2, el, 'array element')
            return 'let v_%s := (%s v_%s (Z.to_nat %s) %s) in\n  ' % (name, 'updl_' if isinstance(el, tuple) else 'upd_', name, ic, c)
        if env[name] in ('warr', 'unsat'):
            c, t2 = self.emit(rhs, env, 'u64')
            if t2 != 'u64': raise TErr('word array element of type %s' % (t2,))
        else:
            c, t2 = self.emit(rhs, env, 'limb')
            if t2 not in ('limb', 'u64'): raise TErr('array element of type %s' % (t2,))
        return 'let v_%s := (upd_ v_%s (Z.to_nat %s) %s) in\n  ' % (name, name, ic, c)
    def tup(self, vs):
        return ', '.join('v_' + v for v in vs)
    def counted(self, c, b, env):
        """`while i < BOUND { ..; i += 1 }` with i not assigned elsewhere in the body -> (i, coq iteration count) or None"""
        if not (c[0] == 'bin' and c[1] in ('<', '<=') and c[2][0] == 'var' and b and
                b[-1] == ('assign', c[2][1], '+', ('num', 1, None)) and c[2][1] not in self.assigned(b[:-1], [])):
            return None
        iv = c[2][1]; bound = c[3]
        if self.const0.get(iv) and c[1] == '<':
            if bound == ('var', 'LIMBS') and 'LIMBS' not in env:
                return iv, 'LIMBS'
            if bound[0] == 'mcall' and bound[2] == 'len' and not bound[3] and bound[1][0] == 'var' and env.get(bound[1][1]) == 'slice':
                return iv, '(length v_%s)' % bound[1][1]         # a slice never changes its length
        # any start value, any bound the body does not change: max(0, BOUND - i) iterations (i < BOUND: `i += 1` cannot wrap)
        if iv not in env: return None
        asg = self.assigned(b, [])
        if any(v in asg for v in fv(bound, set())): return None
        bc, bt = self.emit(bound, env, env[iv])
        t = env[iv] or bt or 'u64'             # `let mut i = 0;` : the counter has the type of the bound
        if bt is None: bc, bt = self.emit(bound, env, t)
        self.unify(bt, t, 'loop bound')
        env[iv] = t
        if c[1] == '<=':
            # `while i <= E { ..; i += 1 }` : max(0, E + 1 - i) iterations (E below the maximum of the type: hypothesis of the theorems)
            return iv, '(Z.to_nat (%s + 1 - v_%s))' % (bc, iv)
        return iv, '(Z.to_nat (%s - v_%s))' % (bc, iv)
    def counted2(self, c, b, env):
        """`while i < E && j < F { ..; i += 1; j += 1; }` (the two increments last, in either order; i, j not assigned elsewhere
        in the body; E, F not changed by it) -> ([i, j], coq iteration count) or None"""
        if not (c[0] == 'bin' and c[1] == '&&' and len(b) >= 2): return None
        l, r = c[2], c[3]
        for x in (l, r):
            if not (x[0] == 'bin' and x[1] == '<' and x[2][0] == 'var'): return None
        iv, jv = l[2][1], r[2][1]
        incs = {('assign', iv, '+', ('num', 1, None)), ('assign', jv, '+', ('num', 1, None))}
        if iv == jv or set(b[-2:]) != incs or iv not in env or jv not in env: return None
        asg = self.assigned(b[:-2], [])
        if iv in asg or jv in asg: return None
        if any(v in asg + [iv, jv] for v in fv(l[3], set()) | fv(r[3], set())): return None
        parts = []
        for v, bound in ((iv, l[3]), (jv, r[3])):
            bc, bt = self.emit(bound, env, env[v])
            t = env[v] or bt or 'u64'
            if bt is None: bc, bt = self.emit(bound, env, t)
            self.unify(bt, t, 'loop bound'); env[v] = t
            parts.append('(%s - v_%s)' % (bc, v))
        return [iv, jv], '(Z.to_nat (Z.min %s %s))' % (parts[0], parts[1])
    def loop_body(self, b, env, tup):
        """body of a `loop`: `if c { break; }` (no else) may stand at the top level of the body, any number of times"""
        for j, x in enumerate(b):
            if x[0] == 'if' and x[2] == [('break',)] and x[3] is None:
                pre = self.stmts(b[:j], env, None, '')
                cc, ct = self.emit(x[1], env, 'bool')
                if ct != 'bool': raise TErr('if condition of type %s' % (ct,))
                return pre + 'if %s then ((%s), true) else\n  %s' % (cc, tup, self.loop_body(b[j + 1:], env, tup))
        return self.stmts(b, env, None, '((%s), false)' % tup)
    def stmts(self, ss, env, rty, tail, top=False):
        """-> coq text; `tail` is the text that closes a non-returning block (the state tuple of a loop body / if branch);
        `top`: the block is the function body (a `panic!` guard may only stand there)"""
        out = ''
        i = 0
        while i < len(ss):
            s = ss[i]
            if s[0] == 'let' and s[3] is None:
                # `let mut x;` : the variable is assigned before it is read (Rust checks this); until then it holds the default
                # value of its type (the type is that of the first assignment)
                if s[1][0] != 'id': raise TErr('`let` without a value needs a plain name')
                name = s[1][1]
                if s[2]:
                    env[name] = parse_type(s[2], self.selfty)
                    out += 'let v_%s := %s in\n  ' % (name, dummy(env[name]))
                else:
                    uid = self.uid; self.uid += 1
                    env[name] = None; self.uninit[name] = uid
                    out += 'let v_%s := \x00U%d\x00 in\n  ' % (name, uid)
                self.const0[name] = False
            elif s[0] == 'let' and s[3] is not None and s[3][0] == 'if' and s[1][0] == 'id' and s[3][3] and \
                    (mutrefs(s[3], []) or self.borrowed(s[3], [])):
                # `let mut c = if q { ..; f(z, ..) } else { ..; e };` where a branch calls a function with `&mut` parameters:
                # read as `let mut c; if q { ..; c = f(z, ..); } else { ..; c = e; }` (the same program in Rust)
                def to_assign(blk):
                    if not blk or blk[-1][0] != 'ret' or blk[-1][1][0] == 'if': raise TErr('branch of a `let .. = if` without a plain tail expression')
                    return blk[:-1] + [('assign', s[1][1], None, blk[-1][1])]
                ss = ss[:i] + [('let', s[1], s[2], None), ('if', s[3][1], to_assign(s[3][2]), to_assign(s[3][3]))] + ss[i + 1:]
                continue
            elif s[0] == 'assign' and s[2] is None and self.is_mut_call(s[3]):
                # `c = f(.., &mut x, ..);` : c is assigned the value, x is rebound to its final contents
                name = s[1]
                if name not in env: raise TErr('assignment to unknown %s' % name)
                c, rt, names = self.mut_call(s[3], env)
                if rt is None: raise TErr('assignment of a unit call')
                if name in names: raise TErr('a borrowed variable assigned by the same call')
                env[name] = self.unify(env[name], rt, 'assignment')
                if name in self.uninit: self.uninit_t[self.uninit.pop(name)] = env[name]
                self.const0[name] = False
                for n in names: self.const0[n] = False
                out += "let '(v_%s, %s) := %s in\n  " % (name, self.tup(names), c)
            elif s[0] in ('let', 'expr') and self.is_mut_call(s[3] if s[0] == 'let' else s[1]):
                # `let pat = f(.., &mut x, ..);` / `f(.., &mut x, ..);` : x is rebound to its final contents
                c, rt, names = self.mut_call(s[3] if s[0] == 'let' else s[1], env)
                for n in names: self.const0[n] = False
                if s[0] == 'let':
                    if rt is None: raise TErr('`let` of a unit call')
                    ety = parse_type(s[2], self.selfty) if s[2] else None
                    if ety: self.unify(rt, ety, 'let')
                    p = self.pat(s[1], rt, env).lstrip("'")
                    out += "let '(%s, %s) := %s in\n  " % (p, self.tup(names), c)
                else:
                    if rt is not None: raise TErr('value of a call dropped')
                    out += "let %s := %s in\n  " % ("'(%s)" % self.tup(names) if len(names) > 1 else self.tup(names), c)
            elif s[0] == 'expr':
                raise TErr('expression statement not supported')
            elif s[0] == 'fn':
                # nested function item: a local function (Rust: it cannot capture the variables of the enclosing function)
                ptys = [parse_type(ts, self.selfty) for _, ts in s[2]]
                if s[3] is None: raise TErr('nested function without a return type')
                frt = parse_type(s[3], self.selfty)
                save = self.ret_t
                fb = self.stmts(s[4], dict(zip([n for n, _ in s[2]], ptys)), frt, None)
                self.ret_t = save
                env[s[1]] = ('localfn', ptys, frt)
                out += 'let v_%s := (fun %s => %s) in\n  ' % (s[1], ' '.join('(v_%s : %s)' % (n, coq_type(t)) for (n, _), t in zip(s[2], ptys)), fb)
            elif s[0] == 'loop':
                # `loop { A; if c { break; } B }` at the top level of the function body: loop_ fuel step state, where step returns the new
                # state and whether the `break` was reached; None when `fuel` iterations do not reach it
                if not top or not self.has_loop: raise TErr('`loop` outside the function body block')
                b = s[1]
                vs = [v for v in self.assigned(b, []) if v in env]
                if not vs: raise TErr('loop that assigns nothing')
                tup = self.tup(vs)
                env2 = dict(env)
                body = self.loop_body(b, env2, tup)
                for v in vs:
                    env[v] = env2[v]; self.const0[v] = False
                for v in env:
                    if env[v] is None: env[v] = env2.get(v)
                rest = self.stmts(ss[i + 1:], env, rty, tail, top)
                return out + "match loop_ fuel (fun st => let '(%s) := st in\n  %s) (%s) with\n  | None => None\n  | Some st => let '(%s) := st in\n  Some (%s)\n  end" % (tup, body, tup, tup, rest)
            elif s[0] == 'let' and s[2] is None and s[1][0] == 'tup' and s[3][0] == 'tuple' and len(s[1][1]) == len(s[3][1]):
                # `let (a, mut b) = (e1, 0);` : a component that is an untyped literal takes its type from the first typed use of the
                # variable it is bound to (like `let mut b = 0;`)
                parts = [self.emit(x, env, None) for x in s[3][1]]
                for (c, t), q in zip(parts, s[1][1]):
                    if t is None and q[0] != 'id': raise TErr('untyped literal in tuple')
                p = self.pat(s[1], ('tuple', [t for _, t in parts]), env)
                out += 'let %s := %s in\n  ' % (p, '(' + ', '.join(c for c, _ in parts) + ')')
            elif s[0] == 'let':
                ety = parse_type(s[2], self.selfty) if s[2] else None
                try:
                    c, t = self.emit(s[3], env, ety)
                except Untyped:
                    # `let mask = (1 << k) - 1;` : an integer expression whose type nothing inside it fixes; Rust infers it from the uses
                    # of the variable: the text is produced when the first typed use is met
                    if ety is not None or s[1][0] != 'id': raise
                    did = self.did; self.did += 1
                    self.deferred[s[1][1]] = (did, s[3], dict(env))
                    env[s[1][1]] = None; self.const0[s[1][1]] = False
                    out += 'let v_%s := \x00D%d\x00 in\n  ' % (s[1][1], did)
                    i += 1
                    continue
                if t is None:
                    t = ety                   # untyped literal: fixed by the first typed use (see 'var')
                if ety: self.unify(t, ety, 'let')
                p = self.pat(s[1], t, env)
                if s[1][0] == 'id':
                    self.const0[s[1][1]] = (s[3] == ('num', 0, None))
                out += 'let %s := %s in\n  ' % (p, c)
            elif s[0] == 'assign':
                rhs = s[3] if s[2] is None else ('bin', s[2], ('var', s[1]), s[3])
                out += self.set_var(s[1], rhs, env)
            elif s[0] == 'iassign':
                out += self.set_idx(s[1], s[2], s[3], env)
            elif s[0] == 'tassign':
                # (p0, p1, ..) = rhs : the right-hand side first, then the places left to right
                c, t = self.emit(s[2], env, None)
                if not (isinstance(t, tuple) and t[0] == 'tuple' and len(t[1]) == len(s[1])):
                    raise TErr('destructuring assignment of %s' % (t,))
                out += "let '(%s) := %s in\n  " % (', '.join('tmp_%d' % k for k in range(len(s[1]))), c)
                for k, pl in enumerate(s[1]):
                    if pl == ('pvar', '_'): continue             # `(_, b) = rhs;` : the component is dropped
                    r = ('raw', 'tmp_%d' % k, t[1][k])
                    out += self.set_var(pl[1], r, env) if pl[0] == 'pvar' else self.set_idx(pl[1], pl[2], r, env)
            elif s[0] == 'if' and s[2] == [('panic',)] and s[3] is None:
                # `if c { panic!(..) }` guard: the rest of the function is the else branch
                if not top or self.result is None: raise TErr('panic! outside the function body block')
                if self.has_loop: raise TErr('guard in a function whose body has a `loop`')
                cc, ct = self.emit(s[1], env, 'bool')
                if ct != 'bool': raise TErr('if condition of type %s' % (ct,))
                rest = self.stmts(ss[i + 1:], env, rty, tail, top)
                return out + 'if %s then (panic_ %s) else\n  %s' % (cc, dummy(self.result), rest)
            elif s[0] == 'if' and len(s[2]) == 1 and s[2][0][0] == 'return' and s[3] is None:
                # `if c { return e; }` guard at the top level of the function body: the rest of the function is the else branch
                if not top or rty is None or self.has_loop: raise TErr('return outside the function body block')
                cc, ct = self.emit(s[1], env, 'bool')
                if ct != 'bool': raise TErr('if condition of type %s' % (ct,))
                rc, rt = self.emit(s[2][0][1], env, rty)
                self.unify(rt, rty, 'return value')
                if self.ret_muts: rc = '(%s, %s)' % (rc, self.tup(self.ret_muts))
                rest = self.stmts(ss[i + 1:], env, rty, tail, top)
                return out + 'if %s then %s else\n  %s' % (cc, rc, rest)
            elif s[0] == 'if' and len(s[2]) > 1 and s[2][-1][0] == 'return' and s[3] is None and \
                    not any(x[0] in ('return', 'while') for x in s[2][:-1]):
                # `if c { s1; ..; return e; }` guard at the top level of the function body
                if not top or rty is None or self.has_loop: raise TErr('return outside the function body block')
                cc, ct = self.emit(s[1], env, 'bool')
                if ct != 'bool': raise TErr('if condition of type %s' % (ct,))
                inner = self.stmts(s[2][:-1] + [('ret', s[2][-1][1])], dict(env), rty, None, top)
                rest = self.stmts(ss[i + 1:], env, rty, tail, top)
                return out + 'if %s then (%s) else\n  %s' % (cc, inner, rest)
            elif s[0] == 'return':
                raise TErr('return outside an `if c { return e; }` guard')
            elif s[0] == 'if':
                cc, ct = self.emit(s[1], env, 'bool')
                if ct != 'bool': raise TErr('if condition of type %s' % (ct,))
                vs = self.assigned(s[2], []); self.assigned(s[3] or [], vs)
                for v in vs:
                    if v not in env: raise TErr('assignment to unknown %s' % v)
                if not vs: raise TErr('if statement that assigns nothing')
                tup = self.tup(vs); tl = '(%s)' % tup if len(vs) > 1 else tup
                ea = dict(env); a = self.stmts(s[2], ea, None, tl)
                eb = dict(env); b = self.stmts(s[3] or [], eb, None, tl)
                for v in vs:
                    env[v] = self.unify(ea[v], eb[v], 'if branches, variable ' + v); self.const0[v] = False
                out += "let %s := if %s then (%s) else (%s) in\n  " % (("'" + tl) if len(vs) > 1 else tl, cc, a, b)
            elif s[0] == 'panic':
                raise TErr('panic! outside an `if c { panic!(..) }` guard')
            elif s[0] == 'while':
                c, b = s[1], s[2]
                if c[0] == 'bin' and c[1] == '<' and c[2][0] == 'var' and c[3][0] == 'num' and b and \
                        b[-1] == ('assign', c[2][1], '+', ('num', 1, None)) and c[2][1] not in self.assigned(b[:-1], []):
                    # counted loop from the current (literal 0) value: unroll
                    iv = c[2][1]; n = c[3][1]
                    if n > 64: raise TErr('loop bound too large to unroll')
                    for kk in range(n):
                        out += 'let v_%s := %d in\n  ' % (iv, kk)
                        out += self.stmts(b[:-1], env, None, '')
                    out += 'let v_%s := %d in\n  ' % (iv, n)
                elif self.counted(c, b, env):
                    # `let mut i = 0; while i < LIMBS { ..; i += 1 }` : exactly LIMBS iterations (x.len(): length x)
                    iv, count = self.counted(c, b, env)
                    env[iv] = env.get(iv) or 'u64'
                    vs = [iv] + [v for v in self.assigned(b[:-1], []) if v in env and v != iv]
                    tup = self.tup(vs)
                    env2 = dict(env)
                    body = self.stmts(b, env2, None, '(%s)' % tup)
                    for v in vs:
                        env[v] = env2[v]; self.const0[v] = False
                    for v in env:
                        if env[v] is None: env[v] = env2.get(v)      # an untyped literal first used (read) in the body
                    out += "let '(%s) := Nat.iter %s (fun st => let '(%s) := st in\n  %s) (%s) in\n  " % (tup, count, tup, body, tup)
                elif self.counted2(c, b, env):
                    # `while i < E && j < F { ..; i += 1; j += 1; }` : min(max(0, E - i), max(0, F - j)) iterations
                    ivs, count = self.counted2(c, b, env)
                    vs = ivs + [v for v in self.assigned(b[:-2], []) if v in env and v not in ivs]
                    tup = self.tup(vs)
                    env2 = dict(env)
                    body = self.stmts(b, env2, None, '(%s)' % tup)
                    for v in vs:
                        env[v] = env2[v]; self.const0[v] = False
                    for v in env:
                        if env[v] is None: env[v] = env2.get(v)
                    out += "let '(%s) := Nat.iter %s (fun st => let '(%s) := st in\n  %s) (%s) in\n  " % (tup, count, tup, body, tup)
                elif c[0] == 'bin' and c[1] == '>' and c[2][0] == 'var' and c[3] == ('num', 0, None) and b and \
                        b[0] == ('assign', c[2][1], '-', ('num', 1, None)) and c[2][1] not in self.assigned(b[1:], []):
                    iv = c[2][1]
                    vs = [iv] + [v for v in self.assigned(b[1:], []) if v in env and v != iv]
                    tup = self.tup(vs)
                    env2 = dict(env)
                    body = self.stmts(b, env2, None, '(%s)' % tup)
                    for v in vs: self.const0[v] = False
                    out += "let '(%s) := Nat.iter (Z.to_nat v_%s) (fun st => let '(%s) := st in\n  %s) (%s) in\n  " % (tup, iv, tup, body, tup)
                elif c[0] == 'bin' and c[1] == '>' and c[2][0] == 'var' and c[3] == ('num', 0, None) and b and \
                        b[-1] == ('assign', c[2][1], '-', ('num', 1, None)) and c[2][1] not in self.assigned(b[:-1], []):
                    # `while v > 0 { ..; v -= 1; }` : v iterations, the body sees v, v - 1, .., 1
                    iv = c[2][1]
                    if iv not in env: raise TErr('unknown loop variable %s' % iv)
                    vs = [iv] + [v for v in self.assigned(b[:-1], []) if v in env and v != iv]
                    tup = self.tup(vs)
                    env2 = dict(env)
                    body = self.stmts(b, env2, None, '(%s)' % tup)
                    for v in vs:
                        env[v] = env2[v]; self.const0[v] = False
                    out += "let '(%s) := Nat.iter (Z.to_nat v_%s) (fun st => let '(%s) := st in\n  %s) (%s) in\n  " % (tup, iv, tup, body, tup)
                else:
                    raise TErr('unsupported while loop shape')
            elif s[0] == 'ret':
                if i != len(ss) - 1: raise TErr('expression before end of block')
                c, t = self.emit(s[1], env, rty)
                if rty is not None: self.unify(t, rty, 'return value')
                self.ret_t = t
                if top and self.ret_muts: c = '(%s, %s)' % (c, self.tup(self.ret_muts))
                return out + c
            else:
                raise TErr('statement kind %s' % s[0])
            i += 1
        if tail is None: raise TErr('block has no value')
        return out + tail

SELFTY = {'ConstChoice': 'choice', 'Reciprocal': ('struct', 'Reciprocal'), 'Limb': 'limb', 'Uint<LIMBS>': 'arr', 'Int<LIMBS>': 'int', 'UnsatInt<LIMBS>': 'unsat',
          'ConstCtOption<T>': ('ctopt', 'T')}

def impl_selfty(impl):
    """the type of Self in `impl .. <impl> { .. }`: the table above, else the impl header read as a type
    (`ConstCtOption<NonZero<Limb>>`, `ConstCtOption<Uint<LIMBS>>`)"""
    if impl is None or impl in SELFTY: return SELFTY.get(impl)
    return parse_type(impl, None)

def file_aliases(src):
    """`type NAME = T;` items at the top level of a source file (column 0: not the associated types of impl blocks)"""
    return dict(re.findall(r'^(?:pub(?:\([a-z]+\))?\s+)?type\s+(\w+)\s*=\s*([^\n]+);[ \t]*$', src, re.M))

def translate(src, name, cname, impl, sigs, trait=None, extern=False):
    """-> parameters, declared return type, body text, type of Self, names of the `&mut` parameters"""
    selfty = impl_selfty(impl)
    FILE_ALIASES[0] = file_aliases(src)
    params, ret, body, generics = find_fn(src, name, impl, trait)
    cg = None
    del EXTRA_CG[:]
    if generics and extern and impl:
        # an extern method with its own const generics: only its signature is read, at the instance where they equal LIMBS
        ms = re.fullmatch(r'<\s*((?:const\s+\w+\s*:\s*usize\s*,?\s*)+)>', generics)
        if not ms: raise TErr('unsupported generic parameters %s' % generics)
        EXTRA_CG.extend(re.findall(r'const\s+(\w+)', ms.group(1)))
    elif generics:
        m = re.fullmatch(r'<\s*const\s+(\w+)\s*:\s*usize\s*>', generics)
        if not m or impl: raise TErr('unsupported generic parameters %s' % generics)
        cg = m.group(1)
    CG[0] = cg
    ps = []; muts = []
    for p in split_top(params):
        p = p.strip()
        if not p: continue
        if re.fullmatch(r'&?\s*self', p):
            ps.append(('self', selfty)); continue
        if re.fullmatch(r'&?\s*(mut\s+)?self', p):
            if p.startswith('&'): raise TErr('&mut self')
            ps.append(('self', selfty)); continue
        m = re.fullmatch(r'(?:mut\s+)?(\w+)\s*:\s*(.+)', p, re.S)
        if not m: raise TErr('parameter %r' % p)
        ty = parse_type(m.group(2), selfty)
        if re.match(r'&\s*mut\b', m.group(2).strip()):
            if ty != 'slice': raise TErr('&mut parameter of type %s' % (ty,))
            muts.append(m.group(1))
        ps.append((m.group(1), ty))
    if any(t == 'str' for _, t in ps) and not extern:
        # a `&str` parameter that the body READS (outside the dropped `assert!` / `panic!` messages) is the list of its UTF-8 bytes
        # (`bstr`); one that only occurs in such messages (or nowhere) stays erased
        try:
            read = fv(P(lex(body), cg or 'LIMBS').block(), set())
        except (TErr, IndexError):
            read = set()
        ps = [(n, 'bstr' if t == 'str' and n in read else t) for n, t in ps]
    rty = parse_type(ret, selfty) if ret else ('tuple', [])
    del EXTRA_CG[:]
    return ps, rty, body, selfty, muts, cg

def find_const(src, name, impl):
    """`const NAME: T = expr;` inside the inherent impl blocks of `impl` -> (type text, expression text)"""
    ms = list(re.finditer(r'^impl(?:<[^>]*>)?\s+%s\s*\{' % re.escape(impl), src, re.M))
    scope = ''
    for m in ms:
        k = m.end(); depth = 1
        while depth and k < len(src):
            depth += (src[k] == '{') - (src[k] == '}'); k += 1
        scope += src[m.end():k - 1] + '\n'
    for m in re.finditer(r'(?:pub(?:\([a-z]+\))?\s+)?const\s+%s\s*:\s*([^=;]+?)\s*=' % re.escape(name), scope):
        pre = scope[:m.start()]
        attrs = re.findall(r'#\[[^\]]*\]', pre[-200:])
        if any('target_pointer_width = "32"' in a for a in attrs[-2:]):
            continue
        k = m.end(); depth = 0
        while not (scope[k] == ';' and depth == 0):
            depth += (scope[k] in '([{') - (scope[k] in ')]}'); k += 1
        return m.group(1), scope[m.end():k]
    raise TErr('const %s not found' % name)

def gen_group(repo, group, sigs):
    """group: {'file': out, 'fns': [ {src, name | const, impl, coq} ... ]} -> coq text, report; `sigs` accumulates over the groups"""
    bodies = []; report = []
    parsed = []; src_of = {}
    externs = []
    CUR_GROUP[0] = group['file']
    for f in group['fns']:
        src = open(os.path.join(repo, f['src'])).read()
        if f.get('extern'):
            # an EXTERN function: outside the subset; only its declared signature is read from the source. It becomes a Section
            # Variable of the generated file: every definition of the group that (transitively) calls it takes it as its first
            # argument, and the theorems about those definitions quantify over it (with the hypotheses they need)
            key = (f['impl'] + '::' + f['name']) if f.get('impl') else f['name']
            try:
                CG[0] = None
                ps, rty, body, selfty, muts, cg = translate(src, f['name'], f['coq'], f.get('impl'), sigs, f.get('trait'), extern=True)
                if muts or cg: raise TErr('extern function with `&mut` parameters / its own const generic')
                sigs[key] = (f['coq'], [t for _, t in ps], rty)
                EXT_USERS[key] = group['file']
                tys = (['nat'] if is_generic(f.get('impl')) else []) + [coq_type(t) for _, t in ps] + [coq_type(rty)]
                externs.append('(* %s :: %s  EXTERN: not translated, a parameter of the definitions below that call it *)\nVariable %s : %s.\n' % (f['src'], key, f['coq'], ' -> '.join(tys)))
                report.append((key, 'ok (extern: signature only)'))
            except TErr as e:
                report.append((key, 'FAILED: ' + str(e)))
                externs.append('(* %s :: %s  EXTERN signature NOT TRANSLATED: %s *)\nVariable %s : unit.\n' % (f['src'], key, str(e).replace('*)', '* )'), f['coq']))
            finally:
                CG[0] = None
            continue
        if 'const' in f:
            key = f['impl'] + '::' + f['const']
            src_of[key] = src
            try:
                tsrc, esrc = find_const(src, f['const'], f['impl'])
                cty = parse_type(tsrc, SELFTY.get(f['impl']))
                CONST_SIGS[key] = (f['coq'], cty)
                parsed.append((f, key, [], cty, esrc, SELFTY.get(f['impl']), None, None))
            except TErr as e:
                parsed.append((f, key, None, None, None, None, str(e), None))
            continue
        key = (f['impl'] + '::' + f['name']) if f.get('impl') else f['name']
        src_of[key] = src
        try:
            CG[0] = None
            ps, rty, body, selfty, muts, cg = translate(src, f['name'], f['coq'], f.get('impl'), sigs, f.get('trait'))
            if muts:
                MUTS[key] = muts
                MUTPOS[key] = [k for k, (n, _) in enumerate(ps) if n in muts]
                pt = dict(ps)
                if rty != ('tuple', []):
                    # a value AND `&mut` parameters: (value, final contents of the `&mut` parameters in parameter order)
                    MUTRET[key] = rty
                    rty = ('tuple', [rty] + [pt[m] for m in muts])
                else:
                    rty = pt[muts[0]] if len(muts) == 1 else ('tuple', [pt[m] for m in muts])
            if cg: FREE_GENERIC.add(key)
            if re.search(r'\bloop\s*\{', body):
                # a `loop`: the Coq function takes (fuel : nat) first and returns an option; it cannot be called by translated code
                if muts or cg or f.get('impl'): raise TErr('`loop` in a method / generic function / function with `&mut` parameters')
                rty = ('option', rty)
            sigs[key] = (f['coq'], [t for _, t in ps], rty)
            parsed.append((f, key, ps, rty, body, selfty, None, cg))
        except TErr as e:
            parsed.append((f, key, None, None, None, None, str(e), None))
        finally:
            CG[0] = None
    for f, key, ps, rty, body, selfty, err, cg in parsed:
        CG[0] = cg
        if err is None:
            try:
                em = Emitter(sigs, selfty, f.get('impl'), rty, cg, MUTS.get(key) if key in MUTRET else None)
                FILE_ALIASES[0] = file_aliases(src_of[key])
                inner = rty
                if isinstance(rty, tuple) and rty[0] == 'option':
                    em.has_loop = True; inner = rty[1]; em.result = inner
                env = {n: t for n, t in ps if n != 'self'}
                em.mutparams = tuple(MUTS.get(key, ()))
                toks = lex(body)
                ss = P(toks, cgname()).block()
                if key in MUTRET:
                    code = em.stmts(ss, env, MUTRET[key], '', top=True)
                elif key in MUTS:
                    # a unit function that writes through `&mut` parameters: its value is their final contents
                    tl = em.tup(MUTS[key])
                    code = em.stmts(ss, env, None, '(%s)' % tl if len(MUTS[key]) > 1 else tl, top=True)
                else:
                    code = em.stmts(ss, env, inner, '', top=True)
                    if em.has_loop and not code.lstrip().endswith('end') : raise TErr('`loop` not at the top level of the function body')
                for did in range(em.did):
                    if did not in em.deferred_txt: raise TErr('`let` of an untyped integer expression that is never used at a type')
                    code = code.replace('\x00D%d\x00' % did, em.deferred_txt[did])
                for uid in range(em.uid):
                    if uid not in em.uninit_t: raise TErr('`let` without a value: the variable is never assigned a typed value')
                    code = code.replace('\x00U%d\x00' % uid, dummy(em.uninit_t[uid]))
                if em.uses_extern: EXT_USERS[key] = group['file']
                args = ' '.join('(v_%s : %s)' % (n, coq_type(t)) for n, t in ps)
                if is_generic(f.get('impl')):
                    args = '(LIMBS : nat) ' + args
                if cg:
                    args = '(%s : nat) ' % cg + args
                if em.has_loop:
                    args = '(fuel : nat) ' + args
                if f.get('impl') == 'ConstCtOption<T>':
                    args = '{T : Type} ' + args
                if 'const' in f:
                    args = args.rstrip()
                    bodies.append('(* %s :: %s (associated constant) *)\nDefinition %s%s : %s :=\n  %s.\n' % (f['src'], key, f['coq'], ' ' + args if args else '', coq_type(rty), code))
                else:
                    bodies.append('(* %s :: %s *)\nDefinition %s %s : %s :=\n  %s.\n' % (f['src'], key, f['coq'], args, coq_type(rty), code))
                report.append((key, 'ok'))
                continue
            except TErr as e:
                err = str(e)
            except (IndexError, KeyError, ValueError, TypeError) as e:
                err = 'translator exception %r' % (e,)
        report.append((key, 'FAILED: ' + err))
        bodies.append('(* %s :: %s  NOT TRANSLATED: %s *)\nDefinition %s : unit := tt.\n' % (f['src'], key, err.replace('*)', '* )'), f['coq']))
    CG[0] = None
    head = '(** GENERATED by tools/rs2v.py from %s -- do not edit; regenerated on every ./check run. *)\n' % ', '.join(sorted(set(f['src'] for f in group['fns'])))
    head += 'From CB Require Import Model.SrcPrelude%s.\nOpen Scope Z_scope.\n\n' % ''.join(' Src.' + r for r in group.get('requires', []))
    if externs:
        return head + 'Section Extern.\n' + '\n'.join(externs) + '\n' + '\n'.join(bodies) + '\nEnd Extern.\n', report
    return head + '\n'.join(bodies), report

GROUPS = json.load(open(os.path.join(os.path.dirname(os.path.abspath(__file__)), 'rs2v_targets.json')))

def main():
    repo = sys.argv[1] if len(sys.argv) > 1 else '/repo'
    REPO[0] = repo
    outdir = sys.argv[2] if len(sys.argv) > 2 else os.path.join(os.path.dirname(os.path.dirname(os.path.abspath(__file__))), 'coq', 'Src')
    os.makedirs(outdir, exist_ok=True)
    allrep = {}; sigs = {}
    for g in GROUPS:
        text, rep = gen_group(repo, g, sigs)
        p = os.path.join(outdir, g['file'])
        if not os.path.exists(p) or open(p).read() != text:
            open(p, 'w').write(text)
        allrep[g['file']] = rep
    json.dump(allrep, open(os.path.join(outdir, 'rs2v_report.json'), 'w'), indent=1)
    bad = [(g, k, v) for g, r in allrep.items() for k, v in r if not v.startswith('ok')]
    for g, k, v in bad:
        print('rs2v: %s %s %s' % (g, k, v))
    print('rs2v: %d functions translated, %d failed' % (sum(len(r) for r in allrep.values()) - len(bad), len(bad)))

if __name__ == '__main__':
    main()
