#!/usr/bin/env python3
"""rs2v_leak: source-derived LEAKAGE MODEL for property C01 (secret-independent execution).

Same front end as tools/rs2v.py (its lexer, parser, type helpers, the target list tools/rs2v_targets.json and its `Emitter`,
imported as a library and subclassed here); for every target function it writes an INSTRUMENTED definition

    l_<name> args : (result * list Z)

into coq/Src/Leak<Group>.v (GENERATED, git-ignored, regenerated from /repo's CURRENT source on every ./check run): the first
component is the value (the same computation as g_<name>), the second the list of leakage events of a source-level
execution, in execution order, each event ONE integer built by a constructor of coq/Model/LeakPrelude.v:

    ev_br c       a condition evaluated on data: every `if` (statement, expression, `if c { return .. }` / `if c { panic!() }`
                  guard) and the left operand of a short-circuit `&&` / `||`
    ev_ix i       every array / slice access x[i], read or write (constant indices and loop counters too: the proofs show
                  that they do not depend on secrets)
    ev_div a b    the operands of `/`, `%`, `div_ceil` on machine integers when the divisor is NOT a compile-time constant
    ev_divc a c   the same when the divisor is syntactically a compile-time constant (a literal or a path to a constant:
                  `Limb::BITS`, `Self::BITS`): an optimized build executes no division instruction for it; the dividend is
                  recorded all the same and LeakPrelude.pubview erases exactly these dividends
    ev_trip n     the trip count of a loop, emitted on entry (loops become Nat.iter n / are unrolled n times: the
                  per-iteration test of a counted loop is a function of n and the iteration number)

Rules (constructs of the language only, never a particular function):
  * the trace is the variable `tr`, threaded through the function like the state of an imperative program:
    `let tr := tr_ tr (ev_ix v_i) in`; loops carry it as the LAST component of their Nat.iter state, `if` statements as the
    last component of the tuple they return; every block that has a value returns (value, tr);
  * a call of a translated function / a use of a translated associated constant is hoisted in front of the statement it
    occurs in and the callee's events are spliced in at that position:
    `let '(h_K, t_K) := (l_callee args) in let tr := tr ++ t_K in`, the expression then uses h_K (arguments are evaluated
    left to right before the call, so the events of the arguments come first);
  * an `if` EXPRESSION is hoisted in the same way: `let '(h_K, tr) := if c then (..; (a, tr)) else (..; (b, tr)) in`;
  * evaluation order inside one statement: operands left to right; for `x[i] = e` and `x[i] op= e` the right-hand side,
    then the index, then the store event; for `(p0, p1) = e` the right-hand side, then the places left to right;
  * mask / select / arithmetic / shift / comparison primitives emit nothing (secret data may flow only through them);
  * `assert!` / `debug_assert!` are dropped exactly as in rs2v.py (outside the documented domain the function aborts);
  * a loop condition with side effects (a call, an index) is a translation error (the bound is evaluated once here);
    effects in the right operand of `&&` / `||` likewise.
Mirrored from the third extension of rs2v.py (square root, signed division fronts, special-modulus multiplication, almost-Montgomery
multiplication; again constructs only):
  * a block expression `{ s1; ..; e }` is hoisted like an `if` expression: `let '(h_K, tr) := (s1; ..; (e, tr)) in`;
  * `if c { e } else { panic!(..) }` as an expression (either branch may diverge): the condition is an `ev_br` like that of any other
    `if`; the diverging branch is `panic_ (D, tr)` (e.g. NonZero::new_unwrap: the theorems state the type fact under which the
    condition is the same in every run);
  * `c = f(.., &mut x / z, ..);` and `let mut c = if q { ..; f(z, ..) } else { ..; e };` (a `&mut [Limb]` parameter passed on): the
    callee's events are spliced in, `let '(v_c, v_z, t_K) := (l_f ..) in let tr := tr ++ t_K in`;
  * the two-counter loop `while i < E && j < F { ..; i += 1; j += 1; }`: one `ev_trip` with the count min(E - i, F - j) (both
    conjuncts and the short circuit are functions of the count and the iteration number);
  * a translated associated constant in the BOUND of a loop (`while i < Self::LOG2_BITS + 2`) is a compile-time constant: its
    events are spliced ONCE in front of the loop; any other effect in a loop condition is still a translation error;
  * method calls on `NonZero<T>` / `Odd<T>` values dispatch as in rs2v.py (the wrapper's own impl block, else auto-deref); the callee
    is spliced like any other call;
  * an EXTERN target (`{"extern": true}`: `Uint::split_mul`) is a Section Variable `lx_<name>` of the generated file that returns
    (value, trace): its trace is spliced in like that of any callee; the instrumented definitions that call it take it as their
    first argument and the theorems state what they ASSUME of its trace as an explicit hypothesis.
Mirrored from the later extensions of rs2v.py (Uint::cmp, Int comparisons, byte / hex / primitive conversions, NonZero / Odd constructors, safegcd
kernels; constructs only):
  * signed machine integers (i8 / i64 / i128), byte slices `&[u8]`, `&str` read as its UTF-8 bytes, `[T; k]` and arrays of arrays: values only;
    an index into any of them is an `ev_ix` (x[i][j]: the outer index, then the inner one); `x[i] = e` on a `[T; k]` / UnsatInt: right-hand side,
    index, store, as for a limb array;
  * a call through a type alias of the crate (`U64::from_u64(x)`, rs2v's call_at) is spliced like any other call;
  * `let (a, mut b) = (e1, 0);` : the components left to right;
  * a nested function item `fn min(a, b) -> T { .. }` is a local function that returns (value, trace), its own trace starting empty; a call of it
    is spliced like a call of a translated function (a branch inside it is an `ev_br` of the caller's trace at the position of the call);
  * `let x = <untyped integer expression>;` (typed by the first typed use of x, as in rs2v.py): the expression is translated at that use, but its
    text AND every binding it hoists (calls, events) stand at the position of the `let`;
  * `loop { A; if c { break; } B }` at the top level of a function body: the function takes (fuel : nat) first and returns
    option (value * trace): `match loop_ fuel (fun st => .. ((state, tr), true|false)) (state, tr) with None => None | Some st => .. Some (v, tr) end`;
    every `if c { break; }` is an `ev_br c`, once per iteration (so the trip count is visible in the trace); None when fuel iterations do not
    reach the `break` (no trace then). Such a function cannot be called by translated code (as in rs2v.py).
Anything rs2v.py cannot translate is an ill-typed stub here too (`Definition l_f : unit := tt.`), so the proofs about it fail.
"""
import os, sys, json, re
sys.path.insert(0, os.path.dirname(os.path.abspath(__file__)))
import rs2v
from rs2v import (TErr, lex, P, translate, find_const, parse_type, coq_type, dummy, cgname, is_generic, SELFTY, CONST_SIGS,
                  MUTS, MUTPOS, MUTRET, FREE_GENERIC, CG, Emitter, fv, mutrefs, EXT_USERS, CUR_GROUP, Untyped, FILE_ALIASES, file_aliases)

def lname(g):
    """g_<name> -> l_<name>; x_<name> (an extern target: a Section Variable of the generated file) -> lx_<name>"""
    if g.startswith('x_'): return 'lx_' + g[2:]
    if not g.startswith('g_'): raise TErr('target name %s does not start with g_' % g)
    return 'l_' + g[2:]

def is_const_expr(e):
    """syntactically a compile-time constant: a literal, a path to a constant, or arithmetic on such"""
    if e[0] in ('num', 'path'): return True
    if e[0] == 'bin': return is_const_expr(e[2]) and is_const_expr(e[3])
    if e[0] == 'cast': return is_const_expr(e[1])
    return False

class LeakEmitter(Emitter):
    def __init__(self, *a, **kw):
        Emitter.__init__(self, *a, **kw)
        self.pre = []          # hoisted bindings of the statement being translated (calls, `if` expressions, events)
        self.hid = 0
        self.const_pre = {}    # hoisted binding of a translated associated constant (text) -> its name h_K
    # ---- events
    def event(self, ev):
        self.pre.append('let tr := tr_ tr %s in\n  ' % ev)
    def fresh(self):
        self.hid += 1
        return self.hid
    def flush(self):
        s = ''.join(self.pre); self.pre = []
        return s
    def hoist_call(self, text, rty):
        k = self.fresh()
        self.pre.append("let '(h_%d, t_%d) := %s in\n  let tr := tr ++ t_%d in\n  " % (k, k, text, k))
        return 'h_%d' % k, rty
    # ---- expressions: the effectful nodes
    def emit(self, e, env, exp=None):
        k = e[0]
        if k == 'var' and e[1] in self.deferred and e[1] in env and env[e[1]] is None and self.isint(exp) and exp not in ('choice', 'limb'):
            # first typed use of `let x = <untyped integer expression>;` : the expression is translated now, at the type of the use,
            # but its text AND the bindings it hoists (calls, events) stand at the position of the `let` (placeholder D<id>)
            env[e[1]] = exp
            did, dex, denv = self.deferred.pop(e[1])
            saved = self.pre; self.pre = []
            dc, dt = self.emit(dex, denv, exp)
            self.unify(dt, exp, 'the untyped `let %s`' % e[1])
            self.deferred_txt[did] = self.flush() + 'let v_%s := %s in\n  ' % (e[1], dc)
            self.pre = saved
            return 'v_' + e[1], exp
        if k == 'call' and len(e[1]) == 1 and isinstance(env.get(e[1][0]), tuple) and env[e[1][0]][0] == 'localfn':
            # a call of a nested function item: it returns (value, trace) like any translated function; spliced in at the call
            c, t = Emitter.emit(self, e, env, exp)
            return self.hoist_call(c, t)
        if k == 'index':
            c, t = self.emit(e[1], env, None)
            ic, it = self.emit(e[2], env, 'u64')
            r = Emitter.emit(self, ('index', ('raw', c, t), ('raw', ic, it)), env, exp)
            self.event('(ev_ix %s)' % ic)
            return r
        if k == 'bin' and e[1] in ('/', '%'):
            a, ta = self.emit(e[2], env, exp)
            b, tb = self.emit(e[3], env, ta if ta else exp)
            if ta is None and tb is not None:
                a, ta = self.emit(e[2], env, tb)          # an untyped literal: no events
            r = Emitter.emit(self, ('bin', e[1], ('raw', a, ta), ('raw', b, tb)), env, exp)
            self.event('(%s %s %s)' % ('ev_divc' if is_const_expr(e[3]) else 'ev_div', a, b))
            return r
        if k == 'bin' and e[1] in ('&&', '||'):
            a, ta = self.emit(e[2], env, 'bool')
            n = len(self.pre)
            b, tb = self.emit(e[3], env, 'bool')
            if len(self.pre) != n: raise TErr('side effects in the right operand of %s' % e[1])
            r = Emitter.emit(self, ('bin', e[1], ('raw', a, ta), ('raw', b, tb)), env, exp)
            self.event('(ev_br %s)' % a)                  # short circuit: the right operand is evaluated under a branch on the left one
            return r
        if k == 'path':
            key = tuple(e[1][-2:])
            owner = self.owner(key[0])
            if owner + '::' + key[1] in CONST_SIGS:
                c, t = Emitter.emit(self, e, env, exp)    # a translated associated constant: spliced like a call without arguments
                r = self.hoist_call(c, t)
                self.const_pre[self.pre[-1]] = r[0]
                return r
            return Emitter.emit(self, e, env, exp)
        if k == 'mcall' and e[2] == 'div_ceil' and len(e[3]) == 1:
            c, t = self.emit(e[1], env, None)
            if self.isint(t) and t not in ('choice', 'limb') and t not in rs2v.SBITS:
                b, tb = self.emit(e[3][0], env, t)
                r = Emitter.emit(self, ('mcall', ('raw', c, t), 'div_ceil', [('raw', b, tb)]), env, exp)
                self.event('(%s %s %s)' % ('ev_divc' if is_const_expr(e[3][0]) else 'ev_div', c, b))
                return r
            return Emitter.emit(self, ('mcall', ('raw', c, t), e[2], e[3]), env, exp)
        if k == 'block':
            # block expression `{ s1; ..; e }`: hoisted like an `if` expression; its `let`s are local, the trace runs through it
            outer = [v for v in self.assigned(e[1], []) if v in env]
            if outer: raise TErr('block expression that assigns the outer variable %s' % outer[0])
            saved = self.pre; self.pre = []
            c = self.stmts(e[1], dict(env), exp, None); t = self.ret_t
            if c is None or t is None: raise TErr('block expression without a value')
            self.pre = saved
            h = self.fresh()
            self.pre.append("let '(h_%d, tr) := (%s) in\n  " % (h, c))
            return 'h_%d' % h, t
        if k == 'if':
            cc, ct = self.emit(e[1], env, 'bool')
            if ct != 'bool': raise TErr('if condition of type %s' % (ct,))
            if not e[3]: raise TErr('if expression without else')
            self.event('(ev_br %s)' % cc)
            saved = self.pre; self.pre = []
            if e[3] == [('panic',)] or e[2] == [('panic',)]:
                # `if c { e } else { panic!(..) }` (or the branches swapped): the condition is an event like that of any other `if`;
                # the diverging branch is panic_ (D, tr)
                other = e[2] if e[3] == [('panic',)] else e[3]
                a = self.stmts(other, dict(env), exp, None); ta = self.ret_t
                if a is None or ta is None: raise TErr('if expression whose branch has no value')
                pd = '(panic_ (%s, tr))' % dummy(ta)
                self.pre = saved
                h = self.fresh()
                self.pre.append("let '(h_%d, tr) := (if %s then %s else %s) in\n  " % ((h, cc, '(%s)' % a, pd) if e[3] == [('panic',)] else (h, cc, pd, '(%s)' % a)))
                return 'h_%d' % h, ta
            a = self.stmts(e[2], dict(env), exp, None); ta = self.ret_t
            b = self.stmts(e[3], dict(env), exp if exp is not None else ta, None); tb = self.ret_t
            if a is None or b is None: raise TErr('if expression whose branch has no value')
            if ta is None and tb is not None:
                a = self.stmts(e[2], dict(env), tb, None); ta = self.ret_t
            t = self.unify(ta, tb, 'if branches')
            self.pre = saved
            h = self.fresh()
            self.pre.append("let '(h_%d, tr) := (if %s then (%s) else (%s)) in\n  " % (h, cc, a, b))
            return 'h_%d' % h, t
        return Emitter.emit(self, e, env, exp)
    def call(self, key, args, env, mut_ok=False):
        c, rty = Emitter.call(self, key, args, env, mut_ok)
        if mut_ok:
            return c, rty                                  # the statement binds (value, buffers, trace) itself
        return self.hoist_call(c, rty)
    def call_at(self, key, args, env, k):
        # a call through a type alias of the crate (`U64::from_u64(x)`): spliced like any other call
        c, rty = Emitter.call_at(self, key, args, env, k)
        return self.hoist_call(c, rty)
    def bound_effects(self, n, r):
        """the bindings hoisted while the bound of a loop was translated (self.pre[n:]); r = (counters, iteration count) or None.
        Uses of translated associated constants (compile-time constants: `Self::LOG2_BITS`) are kept -- spliced ONCE in front of
        the loop, the bound is evaluated once here; any other effect (a call, an index) is a translation error"""
        new = self.pre[n:]; del self.pre[n:]
        if r is None or not new: return r
        for x in new:
            if x not in self.const_pre: raise TErr('loop condition with side effects')
            if re.search(r'\b%s\b' % self.const_pre[x], r[1]): self.pre.append(x)      # (a bound translated twice: the copy in use)
        return r
    def counted_once(self, c, b, env, counters):
        """the loop shape test of the statement translator, evaluated ONCE (the bound may hoist bindings)"""
        self.last_counted = self.counted(c, b, env) if counters == 1 else self.counted2(c, b, env)
        return self.last_counted
    def counted(self, c, b, env):
        n = len(self.pre)
        return self.bound_effects(n, Emitter.counted(self, c, b, env))
    def counted2(self, c, b, env):
        n = len(self.pre)
        return self.bound_effects(n, Emitter.counted2(self, c, b, env))
    # ---- assignments: right-hand side, then the index, then the store
    def set_var(self, name, rhs, env):
        s = Emitter.set_var(self, name, rhs, env)
        return self.flush() + s
    def set_idx(self, name, ix, rhs, env):
        fix = isinstance(env.get(name), tuple) and env[name][0] == 'fixarr'
        if env.get(name) not in ('arr', 'slice', 'warr', 'unsat') and not fix: raise TErr('index assignment to %s' % name)
        c, t2 = self.emit(rhs, env, env[name][1] if fix else 'u64' if env[name] in ('warr', 'unsat') else 'limb')
        ic, it = self.emit(ix, env, 'u64')
        s = Emitter.set_idx(self, name, ('raw', ic, it), ('raw', c, t2), env)
        self.event('(ev_ix %s)' % ic)
        return self.flush() + s
    # ---- statements (rs2v.Emitter.stmts with the trace threaded through; same cases in the same order)
    def ttup(self, vs):
        return ', '.join(['v_' + v for v in vs] + ['tr'])
    def loop_body(self, b, env, tup):
        """body of a `loop`: every `if c { break; }` at its top level is a branch on c (ev_br), evaluated once per iteration"""
        for j, x in enumerate(b):
            if x[0] == 'if' and x[2] == [('break',)] and x[3] is None:
                pre = self.stmts(b[:j], env, None, '')
                cc, ct = self.emit(x[1], env, 'bool')
                if ct != 'bool': raise TErr('if condition of type %s' % (ct,))
                self.event('(ev_br %s)' % cc)
                pre += self.flush()
                return pre + 'if %s then ((%s), true) else\n  %s' % (cc, tup, self.loop_body(b[j + 1:], env, tup))
        return self.stmts(b, env, None, '((%s), false)' % tup)
    def stmts(self, ss, env, rty, tail, top=False):
        """`tail` closes a non-returning block: the state tuple WITH the trace as last component"""
        out = ''
        i = 0
        if self.pre: raise TErr('internal: pending effects at the start of a block')
        while i < len(ss):
            s = ss[i]
            if s[0] == 'let' and s[3] is None:
                if s[1][0] != 'id': raise TErr('`let` without a value needs a plain name')
                name = s[1][1]
                if s[2]:
                    env[name] = parse_type(s[2], self.selfty)
                    out += 'let v_%s := %s in\n  ' % (name, dummy(env[name]))
                else:
                    uid = self.uid; self.uid += 1
                    env[name] = None; self.uninit[name] = uid
                    out += 'let v_%s := \x00U%d\x00 in\n  ' % (name, uid)
                self.const0[name] = False
            elif s[0] == 'let' and s[3] is not None and s[3][0] == 'if' and s[1][0] == 'id' and s[3][3] and \
                    (mutrefs(s[3], []) or self.borrowed(s[3], [])):
                # `let mut c = if q { ..; f(z, ..) } else { ..; e };` where a branch calls a function with `&mut` parameters:
                # read as `let mut c; if q { ..; c = f(z, ..); } else { ..; c = e; }` (the same program in Rust), as in rs2v.py
                def to_assign(blk):
                    if not blk or blk[-1][0] != 'ret' or blk[-1][1][0] == 'if': raise TErr('branch of a `let .. = if` without a plain tail expression')
                    return blk[:-1] + [('assign', s[1][1], None, blk[-1][1])]
                ss = ss[:i] + [('let', s[1], s[2], None), ('if', s[3][1], to_assign(s[3][2]), to_assign(s[3][3]))] + ss[i + 1:]
                continue
            elif s[0] == 'assign' and s[2] is None and self.is_mut_call(s[3]):
                # `c = f(.., &mut x, ..);` : c is assigned the value, x is rebound to its final contents, the callee's events spliced in
                name = s[1]
                if name not in env: raise TErr('assignment to unknown %s' % name)
                c, rt, names = self.mut_call(s[3], env)
                if rt is None: raise TErr('assignment of a unit call')
                if name in names: raise TErr('a borrowed variable assigned by the same call')
                env[name] = self.unify(env[name], rt, 'assignment')
                if name in self.uninit: self.uninit_t[self.uninit.pop(name)] = env[name]
                self.const0[name] = False
                for n in names: self.const0[n] = False
                k = self.fresh()
                out += self.flush() + "let '(v_%s, %s, t_%d) := %s in\n  let tr := tr ++ t_%d in\n  " % (name, self.tup(names), k, c, k)
            elif s[0] in ('let', 'expr') and self.is_mut_call(s[3] if s[0] == 'let' else s[1]):
                c, rt, names = self.mut_call(s[3] if s[0] == 'let' else s[1], env)
                for n in names: self.const0[n] = False
                k = self.fresh()
                if s[0] == 'let':
                    if rt is None: raise TErr('`let` of a unit call')
                    ety = parse_type(s[2], self.selfty) if s[2] else None
                    if ety: self.unify(rt, ety, 'let')
                    p = self.pat(s[1], rt, env).lstrip("'")
                    out += self.flush() + "let '(%s, %s, t_%d) := %s in\n  let tr := tr ++ t_%d in\n  " % (p, self.tup(names), k, c, k)
                else:
                    if rt is not None: raise TErr('value of a call dropped')
                    out += self.flush() + "let '(%s, t_%d) := %s in\n  let tr := tr ++ t_%d in\n  " % (self.tup(names), k, c, k)
            elif s[0] == 'expr':
                raise TErr('expression statement not supported')
            elif s[0] == 'fn':
                # nested function item: a local function that returns (value, trace); its own trace starts empty
                ptys = [parse_type(ts, self.selfty) for _, ts in s[2]]
                if s[3] is None: raise TErr('nested function without a return type')
                frt = parse_type(s[3], self.selfty)
                save = self.ret_t
                fb = self.stmts(s[4], dict(zip([n for n, _ in s[2]], ptys)), frt, None)
                self.ret_t = save
                env[s[1]] = ('localfn', ptys, frt)
                out += 'let v_%s := (fun %s => let tr := (nil : list Z) in\n  %s) in\n  ' % (s[1], ' '.join('(v_%s : %s)' % (n, coq_type(t)) for (n, _), t in zip(s[2], ptys)), fb)
            elif s[0] == 'loop':
                # `loop { A; if c { break; } B }` at the top level of the function body: loop_ fuel step state with the trace as the last
                # component of the state; the function returns option (value * trace): None when `fuel` iterations do not reach the break
                if not top or not self.has_loop: raise TErr('`loop` outside the function body block')
                b = s[1]
                vs = [v for v in self.assigned(b, []) if v in env]
                if not vs: raise TErr('loop that assigns nothing')
                tup = self.ttup(vs)
                env2 = dict(env)
                body = self.loop_body(b, env2, tup)
                for v in vs:
                    env[v] = env2[v]; self.const0[v] = False
                for v in env:
                    if env[v] is None: env[v] = env2.get(v)
                rest = self.stmts(ss[i + 1:], env, rty, tail, top)
                return out + "match loop_ fuel (fun st => let '(%s) := st in\n  %s) (%s) with\n  | None => None\n  | Some st => let '(%s) := st in\n  Some (%s)\n  end" % (tup, body, tup, tup, rest)
            elif s[0] == 'let' and s[2] is None and s[1][0] == 'tup' and s[3][0] == 'tuple' and len(s[1][1]) == len(s[3][1]):
                # `let (a, mut b) = (e1, 0);` : components left to right; an untyped literal takes its type from the first typed use
                parts = [self.emit(x, env, None) for x in s[3][1]]
                for (c, t), q in zip(parts, s[1][1]):
                    if t is None and q[0] != 'id': raise TErr('untyped literal in tuple')
                p = self.pat(s[1], ('tuple', [t for _, t in parts]), env)
                out += self.flush() + 'let %s := %s in\n  ' % (p, '(' + ', '.join(c for c, _ in parts) + ')')
            elif s[0] == 'let':
                ety = parse_type(s[2], self.selfty) if s[2] else None
                npre = len(self.pre)
                try:
                    c, t = self.emit(s[3], env, ety)
                except Untyped:
                    # `let mask = (1 << k) - 1;` : typed by the first typed use of the variable; the text (and whatever it hoists) is
                    # produced then and stands HERE (see 'var' in emit)
                    if ety is not None or s[1][0] != 'id': raise
                    del self.pre[npre:]
                    did = self.did; self.did += 1
                    self.deferred[s[1][1]] = (did, s[3], dict(env))
                    env[s[1][1]] = None; self.const0[s[1][1]] = False
                    out += '\x00D%d\x00' % did
                    i += 1
                    continue
                if t is None:
                    t = ety
                if ety: self.unify(t, ety, 'let')
                p = self.pat(s[1], t, env)
                if s[1][0] == 'id':
                    self.const0[s[1][1]] = (s[3] == ('num', 0, None))
                out += self.flush() + 'let %s := %s in\n  ' % (p, c)
            elif s[0] == 'assign':
                rhs = s[3] if s[2] is None else ('bin', s[2], ('var', s[1]), s[3])
                out += self.set_var(s[1], rhs, env)
            elif s[0] == 'iassign':
                out += self.set_idx(s[1], s[2], s[3], env)
            elif s[0] == 'tassign':
                c, t = self.emit(s[2], env, None)
                if not (isinstance(t, tuple) and t[0] == 'tuple' and len(t[1]) == len(s[1])):
                    raise TErr('destructuring assignment of %s' % (t,))
                out += self.flush() + "let '(%s) := %s in\n  " % (', '.join('tmp_%d' % k for k in range(len(s[1]))), c)
                for k, pl in enumerate(s[1]):
                    if pl == ('pvar', '_'): continue
                    r = ('raw', 'tmp_%d' % k, t[1][k])
                    out += self.set_var(pl[1], r, env) if pl[0] == 'pvar' else self.set_idx(pl[1], pl[2], r, env)
            elif s[0] == 'if' and s[2] == [('panic',)] and s[3] is None:
                if not top or self.result is None: raise TErr('panic! outside the function body block')
                if self.has_loop: raise TErr('guard in a function whose body has a `loop`')
                cc, ct = self.emit(s[1], env, 'bool')
                if ct != 'bool': raise TErr('if condition of type %s' % (ct,))
                self.event('(ev_br %s)' % cc)
                out += self.flush()
                rest = self.stmts(ss[i + 1:], env, rty, tail, top)
                return out + 'if %s then (panic_ (%s, tr)) else\n  %s' % (cc, dummy(self.result), rest)
            elif s[0] == 'if' and len(s[2]) == 1 and s[2][0][0] == 'return' and s[3] is None:
                if not top or rty is None or self.has_loop: raise TErr('return outside the function body block')
                cc, ct = self.emit(s[1], env, 'bool')
                if ct != 'bool': raise TErr('if condition of type %s' % (ct,))
                self.event('(ev_br %s)' % cc)
                out += self.flush()
                rc, rt = self.emit(s[2][0][1], env, rty)
                self.unify(rt, rty, 'return value')
                if self.ret_muts: rc = '(%s, %s)' % (rc, self.tup(self.ret_muts))
                inner = self.flush() + '(%s, tr)' % rc
                rest = self.stmts(ss[i + 1:], env, rty, tail, top)
                return out + 'if %s then (%s) else\n  %s' % (cc, inner, rest)
            elif s[0] == 'if' and len(s[2]) > 1 and s[2][-1][0] == 'return' and s[3] is None and \
                    not any(x[0] in ('return', 'while') for x in s[2][:-1]):
                if not top or rty is None or self.has_loop: raise TErr('return outside the function body block')
                cc, ct = self.emit(s[1], env, 'bool')
                if ct != 'bool': raise TErr('if condition of type %s' % (ct,))
                self.event('(ev_br %s)' % cc)
                out += self.flush()
                inner = self.stmts(s[2][:-1] + [('ret', s[2][-1][1])], dict(env), rty, None, top)
                rest = self.stmts(ss[i + 1:], env, rty, tail, top)
                return out + 'if %s then (%s) else\n  %s' % (cc, inner, rest)
            elif s[0] == 'return':
                raise TErr('return outside an `if c { return e; }` guard')
            elif s[0] == 'if':
                cc, ct = self.emit(s[1], env, 'bool')
                if ct != 'bool': raise TErr('if condition of type %s' % (ct,))
                self.event('(ev_br %s)' % cc)
                out += self.flush()
                vs = self.assigned(s[2], []); self.assigned(s[3] or [], vs)
                for v in vs:
                    if v not in env: raise TErr('assignment to unknown %s' % v)
                if not vs: raise TErr('if statement that assigns nothing')
                tl = '(%s)' % self.ttup(vs)
                ea = dict(env); a = self.stmts(s[2], ea, None, tl)
                eb = dict(env); b = self.stmts(s[3] or [], eb, None, tl)
                for v in vs:
                    env[v] = self.unify(ea[v], eb[v], 'if branches, variable ' + v); self.const0[v] = False
                out += "let '%s := if %s then (%s) else (%s) in\n  " % (tl, cc, a, b)
            elif s[0] == 'panic':
                raise TErr('panic! outside an `if c { panic!(..) }` guard')
            elif s[0] == 'while':
                c, b = s[1], s[2]
                if c[0] == 'bin' and c[1] == '<' and c[2][0] == 'var' and c[3][0] == 'num' and b and \
                        b[-1] == ('assign', c[2][1], '+', ('num', 1, None)) and c[2][1] not in self.assigned(b[:-1], []):
                    iv = c[2][1]; n = c[3][1]
                    if n > 64: raise TErr('loop bound too large to unroll')
                    out += 'let tr := tr_ tr (ev_trip %d) in\n  ' % n
                    for kk in range(n):
                        out += 'let v_%s := %d in\n  ' % (iv, kk)
                        out += self.stmts(b[:-1], env, None, '')
                    out += 'let v_%s := %d in\n  ' % (iv, n)
                elif self.counted_once(c, b, env, 1):
                    iv, count = self.last_counted
                    out += self.flush()          # associated constants in the bound: spliced once, in front of the loop
                    env[iv] = env.get(iv) or 'u64'
                    vs = [iv] + [v for v in self.assigned(b[:-1], []) if v in env and v != iv]
                    tup = self.ttup(vs)
                    env2 = dict(env)
                    body = self.stmts(b, env2, None, '(%s)' % tup)
                    for v in vs:
                        env[v] = env2[v]; self.const0[v] = False
                    for v in env:
                        if env[v] is None: env[v] = env2.get(v)
                    out += 'let tr := tr_ tr (ev_trip (Z.of_nat %s)) in\n  ' % count
                    out += "let '(%s) := Nat.iter %s (fun st => let '(%s) := st in\n  %s) (%s) in\n  " % (tup, count, tup, body, tup)
                elif self.counted_once(c, b, env, 2):
                    # `while i < E && j < F { ..; i += 1; j += 1; }` : min(max(0, E - i), max(0, F - j)) iterations; the per-iteration
                    # test (both conjuncts, the short circuit included) is a function of the trip count and the iteration number
                    ivs, count = self.last_counted
                    out += self.flush()
                    vs = ivs + [v for v in self.assigned(b[:-2], []) if v in env and v not in ivs]
                    tup = self.ttup(vs)
                    env2 = dict(env)
                    body = self.stmts(b, env2, None, '(%s)' % tup)
                    for v in vs:
                        env[v] = env2[v]; self.const0[v] = False
                    for v in env:
                        if env[v] is None: env[v] = env2.get(v)
                    out += 'let tr := tr_ tr (ev_trip (Z.of_nat %s)) in\n  ' % count
                    out += "let '(%s) := Nat.iter %s (fun st => let '(%s) := st in\n  %s) (%s) in\n  " % (tup, count, tup, body, tup)
                elif c[0] == 'bin' and c[1] == '>' and c[2][0] == 'var' and c[3] == ('num', 0, None) and b and \
                        b[0] == ('assign', c[2][1], '-', ('num', 1, None)) and c[2][1] not in self.assigned(b[1:], []):
                    iv = c[2][1]
                    vs = [iv] + [v for v in self.assigned(b[1:], []) if v in env and v != iv]
                    tup = self.ttup(vs)
                    env2 = dict(env)
                    body = self.stmts(b, env2, None, '(%s)' % tup)
                    for v in vs: self.const0[v] = False
                    out += 'let tr := tr_ tr (ev_trip (Z.of_nat (Z.to_nat v_%s))) in\n  ' % iv
                    out += "let '(%s) := Nat.iter (Z.to_nat v_%s) (fun st => let '(%s) := st in\n  %s) (%s) in\n  " % (tup, iv, tup, body, tup)
                elif c[0] == 'bin' and c[1] == '>' and c[2][0] == 'var' and c[3] == ('num', 0, None) and b and \
                        b[-1] == ('assign', c[2][1], '-', ('num', 1, None)) and c[2][1] not in self.assigned(b[:-1], []):
                    iv = c[2][1]
                    if iv not in env: raise TErr('unknown loop variable %s' % iv)
                    vs = [iv] + [v for v in self.assigned(b[:-1], []) if v in env and v != iv]
                    tup = self.ttup(vs)
                    env2 = dict(env)
                    body = self.stmts(b, env2, None, '(%s)' % tup)
                    for v in vs:
                        env[v] = env2[v]; self.const0[v] = False
                    out += 'let tr := tr_ tr (ev_trip (Z.of_nat (Z.to_nat v_%s))) in\n  ' % iv
                    out += "let '(%s) := Nat.iter (Z.to_nat v_%s) (fun st => let '(%s) := st in\n  %s) (%s) in\n  " % (tup, iv, tup, body, tup)
                else:
                    raise TErr('unsupported while loop shape')
            elif s[0] == 'ret':
                if i != len(ss) - 1: raise TErr('expression before end of block')
                c, t = self.emit(s[1], env, rty)
                if rty is not None: self.unify(t, rty, 'return value')
                self.ret_t = t
                if top and self.ret_muts: c = '(%s, %s)' % (c, self.tup(self.ret_muts))
                return out + self.flush() + '(%s, tr)' % c
            else:
                raise TErr('statement kind %s' % s[0])
            i += 1
        if tail is None: raise TErr('block has no value')
        return out + tail

def gen_group(repo, group, sigs):
    """rs2v.gen_group for the instrumented definitions: the same two passes (signatures, then bodies), the names l_<name>"""
    bodies = []; report = []; parsed = []; src_of = {}
    externs = []
    CUR_GROUP[0] = group['file']
    for f in group['fns']:
        src = open(os.path.join(repo, f['src'])).read()
        ln = lname(f['coq'])
        if f.get('extern'):
            # an EXTERN function (outside the subset, only its declared signature is read): a Section Variable of the generated
            # file that returns (value, trace) -- every instrumented definition of the group that (transitively) calls it takes
            # it as its first argument; what the theorems ASSUME of its trace is stated in them as a hypothesis
            key = (f['impl'] + '::' + f['name']) if f.get('impl') else f['name']
            try:
                CG[0] = None
                ps, rty, body, selfty, muts, cg = translate(src, f['name'], ln, f.get('impl'), sigs, f.get('trait'), extern=True)
                if muts or cg: raise TErr('extern function with `&mut` parameters / its own const generic')
                sigs[key] = (ln, [t for _, t in ps], rty)
                EXT_USERS[key] = group['file']
                tys = (['nat'] if is_generic(f.get('impl')) else []) + [coq_type(t) for _, t in ps] + ['(%s * list Z)' % coq_type(rty)]
                externs.append('(* %s :: %s  EXTERN: not translated, a parameter (value, trace) of the definitions below that call it *)\nVariable %s : %s.\n' % (f['src'], key, ln, ' -> '.join(tys)))
                report.append((key, 'ok (extern: signature only)'))
            except TErr as e:
                report.append((key, 'FAILED: ' + str(e)))
                externs.append('(* %s :: %s  EXTERN signature NOT TRANSLATED: %s *)\nVariable %s : unit.\n' % (f['src'], key, str(e).replace('*)', '* )'), ln))
            finally:
                CG[0] = None
            continue
        if 'const' in f:
            key = f['impl'] + '::' + f['const']
            src_of[key] = src
            try:
                tsrc, esrc = find_const(src, f['const'], f['impl'])
                cty = parse_type(tsrc, SELFTY.get(f['impl']))
                CONST_SIGS[key] = (ln, cty)
                parsed.append((f, key, [], cty, esrc, SELFTY.get(f['impl']), None, None))
            except TErr as e:
                parsed.append((f, key, None, None, None, None, str(e), None))
            continue
        key = (f['impl'] + '::' + f['name']) if f.get('impl') else f['name']
        src_of[key] = src
        try:
            CG[0] = None
            ps, rty, body, selfty, muts, cg = translate(src, f['name'], ln, f.get('impl'), sigs, f.get('trait'))
            if muts:
                MUTS[key] = muts
                MUTPOS[key] = [k for k, (n, _) in enumerate(ps) if n in muts]
                pt = dict(ps)
                if rty != ('tuple', []):
                    MUTRET[key] = rty
                    rty = ('tuple', [rty] + [pt[m] for m in muts])
                else:
                    rty = pt[muts[0]] if len(muts) == 1 else ('tuple', [pt[m] for m in muts])
            if cg: FREE_GENERIC.add(key)
            if re.search(r'\bloop\s*\{', body):
                # a `loop`: (fuel : nat) first, the result option (value * trace); it cannot be called by translated code
                if muts or cg or f.get('impl'): raise TErr('`loop` in a method / generic function / function with `&mut` parameters')
                rty = ('option', rty)
            sigs[key] = (ln, [t for _, t in ps], rty)
            parsed.append((f, key, ps, rty, body, selfty, None, cg))
        except TErr as e:
            parsed.append((f, key, None, None, None, None, str(e), None))
        finally:
            CG[0] = None
    for f, key, ps, rty, body, selfty, err, cg in parsed:
        CG[0] = cg
        ln = lname(f['coq'])
        if err is None:
            try:
                em = LeakEmitter(sigs, selfty, f.get('impl'), rty, cg, MUTS.get(key) if key in MUTRET else None)
                FILE_ALIASES[0] = file_aliases(src_of[key])
                inner = rty
                if isinstance(rty, tuple) and rty[0] == 'option':
                    em.has_loop = True; inner = rty[1]; em.result = inner
                env = {n: t for n, t in ps if n != 'self'}
                em.mutparams = tuple(MUTS.get(key, ()))
                ss = P(lex(body), cgname()).block()
                if key in MUTRET:
                    code = em.stmts(ss, env, MUTRET[key], '', top=True)
                elif key in MUTS:
                    code = em.stmts(ss, env, None, '(%s)' % em.ttup(MUTS[key]), top=True)
                else:
                    code = em.stmts(ss, env, inner, '', top=True)
                    if em.has_loop and not code.lstrip().endswith('end'): raise TErr('`loop` not at the top level of the function body')
                for did in range(em.did):
                    if did not in em.deferred_txt: raise TErr('`let` of an untyped integer expression that is never used at a type')
                    code = code.replace('\x00D%d\x00' % did, em.deferred_txt[did])
                for uid in range(em.uid):
                    if uid not in em.uninit_t: raise TErr('`let` without a value: the variable is never assigned a typed value')
                    code = code.replace('\x00U%d\x00' % uid, dummy(em.uninit_t[uid]))
                if em.uses_extern: EXT_USERS[key] = group['file']
                args = ' '.join('(v_%s : %s)' % (n, coq_type(t)) for n, t in ps)
                if is_generic(f.get('impl')):
                    args = '(LIMBS : nat) ' + args
                if cg:
                    args = '(%s : nat) ' % cg + args
                if em.has_loop:
                    args = '(fuel : nat) ' + args
                if f.get('impl') == 'ConstCtOption<T>':
                    args = '{T : Type} ' + args
                args = args.rstrip()
                what = '%s :: %s%s' % (f['src'], key, ' (associated constant)' if 'const' in f else '')
                rtxt = 'option (%s * list Z)' % coq_type(inner) if em.has_loop else '(%s * list Z)' % coq_type(rty)
                bodies.append('(* %s *)\nDefinition %s%s : %s :=\n  let tr := (nil : list Z) in\n  %s.\n'
                              % (what, ln, ' ' + args if args else '', rtxt, code))
                report.append((key, 'ok'))
                continue
            except TErr as e:
                err = str(e)
            except (IndexError, KeyError, ValueError, TypeError) as e:
                err = 'translator exception %r' % (e,)
        report.append((key, 'FAILED: ' + err))
        bodies.append('(* %s :: %s  NOT TRANSLATED: %s *)\nDefinition %s : unit := tt.\n' % (f['src'], key, err.replace('*)', '* )'), ln))
    CG[0] = None
    head = '(** GENERATED by tools/rs2v_leak.py from %s -- do not edit; regenerated on every ./check run. *)\n' % ', '.join(sorted(set(f['src'] for f in group['fns'])))
    head += 'From CB Require Import Model.SrcPrelude Model.LeakPrelude%s.\nOpen Scope Z_scope.\n\n' % ''.join(' Src.' + leakfile(r) for r in group.get('requires', []))
    if externs:
        return head + 'Section Extern.\n' + '\n'.join(externs) + '\n' + '\n'.join(bodies) + '\nEnd Extern.\n', report
    return head + '\n'.join(bodies), report

def leakfile(genname):
    """GenPrim(.v) -> LeakPrim(.v)"""
    if not genname.startswith('Gen'): raise TErr('group file %s does not start with Gen' % genname)
    return 'Leak' + genname[3:]

# the groups of tools/rs2v_targets.json whose kernels have hand-written noninterference proofs (coq/Src/Leak<G>P.v)
LEAK_FILES = ['Gen%s.v' % g for g in ('Prim', 'Div', 'Uint', 'Mod', 'Shift', 'Mul', 'Int', 'DivLimb', 'Monty', 'Hex', 'Bits', 'DivCt', 'Sqrt', 'Amm', 'MulMod', 'IntDiv', 'Cmp', 'IntCmp', 'Conv', 'Wrap', 'SafeGcd', 'Logic')]

def main():
    repo = sys.argv[1] if len(sys.argv) > 1 else '/repo'
    outdir = sys.argv[2] if len(sys.argv) > 2 else os.path.join(os.path.dirname(os.path.dirname(os.path.abspath(__file__))), 'coq', 'Src')
    os.makedirs(outdir, exist_ok=True)
    rs2v.REPO[0] = repo          # (the wrapper-method scan of rs2v.wrapper_methods reads the same tree)
    allrep = {}; sigs = {}
    for g in rs2v.GROUPS:
        if g['file'] not in LEAK_FILES:
            continue          # a group added to rs2v after this list was last extended: not instrumented yet (DESIGN R11)
        try:
            text, rep = gen_group(repo, g, sigs)
        except Exception as e:          # a construct of a later rs2v that this emitter does not mirror: stub the group
            text = '(* NOT INSTRUMENTED: %r *)\nDefinition leak_group_failed : unit := tt.\n' % (e,)
            rep = [(g['file'], 'FAILED: %r' % (e,))]
        p = os.path.join(outdir, leakfile(g['file']))
        if not os.path.exists(p) or open(p).read() != text:
            open(p, 'w').write(text)
        allrep[leakfile(g['file'])] = rep
    json.dump(allrep, open(os.path.join(outdir, 'rs2v_leak_report.json'), 'w'), indent=1)
    bad = [(g, k, v) for g, r in allrep.items() for k, v in r if not v.startswith('ok')]
    for g, k, v in bad:
        print('rs2v_leak: %s %s %s' % (g, k, v))
    print('rs2v_leak: %d functions instrumented, %d failed' % (sum(len(r) for r in allrep.values()) - len(bad), len(bad)))

if __name__ == '__main__':
    main()
