(* Driver for the extracted Coq model.
   stdin : one case per line   id \t rustop \t modelop \t arg;arg;...   (arg = comma-separated hex words, "-" = empty list)
   stdout: id \t model-outcome \t spec-outcome
   argv.(1) = "debug" selects the debug-assertion profile of the model. *)
let parse_word s = Z.of_string ("0x" ^ s)
let parse_arg s =
  if s = "-" || s = "" then [] else List.map parse_word (String.split_on_char ',' s)
let parse_args s =
  if s = "" then [] else List.map parse_arg (String.split_on_char ';' s)
let fmt_list l = if l = [] then "-" else String.concat "," (List.map (fun z -> Z.format "%x" z) l)
let fmt_outcome (o : Model.outcome) = match o with
  | Model.Val vs -> "ok " ^ String.concat ";" (List.map fmt_list vs)
  | Model.NoneV -> "none"
  | Model.ErrV c -> "err " ^ Z.to_string c
  | Model.PanicV -> "panic"
  | Model.Unsupported -> "unsupported"
let () =
  let dbg = Array.length Sys.argv > 1 && Sys.argv.(1) = "debug" in
  (try
    while true do
      let line = input_line stdin in
      match String.split_on_char '\t' line with
      | id :: _rustop :: mop :: rest ->
        let args = parse_args (match rest with a :: _ -> a | [] -> "") in
        let m = (try fmt_outcome (Model.run_model dbg mop args) with Stack_overflow -> "model-exn" | Not_found -> "model-exn" | Invalid_argument _ -> "model-exn" | Z.Overflow -> "model-exn") in
        let s = (try fmt_outcome (Model.run_spec dbg mop args) with Stack_overflow -> "spec-exn" | Not_found -> "spec-exn" | Invalid_argument _ -> "spec-exn" | Z.Overflow -> "spec-exn") in
        print_string id; print_char '\t'; print_string m; print_char '\t'; print_string s; print_char '\n'
      | _ -> ()
    done
  with End_of_file -> ());
  flush stdout
