//! Correspondence harness: runs crypto-bigint API forms on cases read from stdin.
//! stdin : id \t rustop \t modelop \t arg;arg;...   (arg = comma-separated hex words, "-" = empty)
//! stdout: id \t outcome            (ok a;b | none | err N | panic | unsupported | timeout)
#![allow(clippy::all)]
#![allow(unused_imports, dead_code, unused_macros)]
use std::io::{BufRead, Write};
use std::panic::{AssertUnwindSafe, catch_unwind};
use std::sync::atomic::{AtomicU64, Ordering};
use std::sync::{Arc, Mutex};

#[macro_use]
pub mod util;
pub mod ops;

use util::*;

static TICK: AtomicU64 = AtomicU64::new(0);

fn main() {
    std::panic::set_hook(Box::new(|_| {}));
    let cur: Arc<Mutex<String>> = Arc::new(Mutex::new(String::new()));
    {
        // watchdog: a case running for more than WATCHDOG_S seconds is reported as `timeout`
        let cur = cur.clone();
        let limit: u64 = std::env::var("VERIF_WATCHDOG_S").ok().and_then(|s| s.parse().ok()).unwrap_or(30);
        std::thread::spawn(move || {
            let mut last = 0u64;
            let mut same = 0u64;
            loop {
                std::thread::sleep(std::time::Duration::from_secs(1));
                let t = TICK.load(Ordering::SeqCst);
                if t == last && t != 0 && t != u64::MAX {
                    same += 1;
                    if same >= limit {
                        let id = cur.lock().unwrap().clone();
                        let out = std::io::stdout();
                        let mut o = out.lock();
                        let _ = writeln!(o, "{}\ttimeout", id);
                        let _ = o.flush();
                        std::process::exit(3);
                    }
                } else {
                    same = 0;
                    last = t;
                }
            }
        });
    }
    let stdin = std::io::stdin();
    let stdout = std::io::stdout();
    let mut out = std::io::BufWriter::new(stdout.lock());
    for line in stdin.lock().lines() {
        let line = match line { Ok(l) => l, Err(_) => break };
        let mut it = line.split('\t');
        let id = match it.next() { Some(x) => x, None => continue };
        let rop = match it.next() { Some(x) => x, None => continue };
        let _mop = it.next();
        let args = parse_args(it.next().unwrap_or(""));
        *cur.lock().unwrap() = id.to_string();
        TICK.fetch_add(1, Ordering::SeqCst);
        let _ = out.flush();
        let r = catch_unwind(AssertUnwindSafe(|| ops::dispatch(rop, &args)));
        let s = match r {
            Ok(Some(o)) => o.fmt(),
            Ok(None) => "unsupported".to_string(),
            Err(_) => "panic".to_string(),
        };
        let _ = writeln!(out, "{}\t{}", id, s);
    }
    TICK.store(u64::MAX, Ordering::SeqCst);
    let _ = out.flush();
}
