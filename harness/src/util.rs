use crypto_bigint::{BoxedUint, Int, Limb, Uint};

pub type Args = Vec<Vec<u64>>;

pub enum Out {
    Val(Vec<Vec<u64>>),
    None,
    Err(u32),
}

impl Out {
    pub fn fmt(&self) -> String {
        match self {
            Out::Val(vs) => {
                let parts: Vec<String> = vs
                    .iter()
                    .map(|v| {
                        if v.is_empty() {
                            "-".to_string()
                        } else {
                            v.iter().map(|w| format!("{:x}", w)).collect::<Vec<_>>().join(",")
                        }
                    })
                    .collect();
                format!("ok {}", parts.join(";"))
            }
            Out::None => "none".to_string(),
            Out::Err(c) => format!("err {}", c),
        }
    }
}

pub fn parse_args(s: &str) -> Args {
    if s.is_empty() {
        return vec![];
    }
    s.split(';')
        .map(|a| {
            if a == "-" || a.is_empty() {
                vec![]
            } else {
                a.split(',').map(|w| u64::from_str_radix(w, 16).expect("bad hex word")).collect()
            }
        })
        .collect()
}

pub fn sc(a: &Args, i: usize) -> u64 {
    a.get(i).and_then(|v| v.first()).copied().unwrap_or(0)
}
pub fn ar(a: &Args, i: usize) -> &[u64] {
    a.get(i).map(|v| v.as_slice()).unwrap_or(&[])
}
pub fn u<const N: usize>(v: &[u64]) -> Uint<N> {
    let mut w = [0u64; N];
    assert_eq!(v.len(), N, "harness: operand width mismatch");
    w.copy_from_slice(v);
    Uint::from_words(w)
}
pub fn si<const N: usize>(v: &[u64]) -> Int<N> {
    u::<N>(v).as_int()
}
pub fn bx(v: &[u64]) -> BoxedUint {
    BoxedUint::from_words(v.iter().copied())
}
pub fn uv<const N: usize>(x: &Uint<N>) -> Vec<u64> {
    x.to_words().to_vec()
}
pub fn iv<const N: usize>(x: &Int<N>) -> Vec<u64> {
    x.as_uint().to_words().to_vec()
}
pub fn bv(x: &BoxedUint) -> Vec<u64> {
    x.as_words().to_vec()
}
pub fn lv(x: Limb) -> Vec<u64> {
    vec![x.0]
}
pub fn bl(b: bool) -> Vec<u64> {
    vec![b as u64]
}
pub fn ch(c: subtle::Choice) -> Vec<u64> {
    vec![c.unwrap_u8() as u64]
}
pub fn cc(c: crypto_bigint::ConstChoice) -> Vec<u64> {
    vec![bool::from(c) as u64]
}
pub fn val1(v: Vec<u64>) -> Option<Out> {
    Some(Out::Val(vec![v]))
}
pub fn val2(a: Vec<u64>, b: Vec<u64>) -> Option<Out> {
    Some(Out::Val(vec![a, b]))
}
pub fn ctopt<T>(o: subtle::CtOption<T>, f: impl Fn(&T) -> Vec<u64>) -> Option<Out> {
    let o: Option<T> = o.into();
    match o {
        Some(x) => val1(f(&x)),
        None => Some(Out::None),
    }
}
pub fn cctopt<T>(o: crypto_bigint::ConstCtOption<T>, f: impl Fn(&T) -> Vec<u64>) -> Option<Out> {
    let o: Option<T> = o.into();
    match o {
        Some(x) => val1(f(&x)),
        None => Some(Out::None),
    }
}
pub fn choice(x: u64) -> subtle::Choice {
    subtle::Choice::from((x != 0) as u8)
}
pub fn cchoice(x: u64) -> crypto_bigint::ConstChoice {
    crypto_bigint::ConstChoice::from(choice(x))
}

/// Dispatch a const-generic function over the limb count `$n`.
#[macro_export]
macro_rules! with_n {
    ($n:expr, [$($k:literal),*], $f:ident, $op:expr, $a:expr) => {
        match $n {
            $( $k => $f::<$k>($op, $a), )*
            _ => None,
        }
    };
}
