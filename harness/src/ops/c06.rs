//! C06 adapters: comparison / equality / hashing / conditional selection on Limb, Uint<N>, Int<N>,
//! BoxedUint and the NonZero / Odd / Wrapping wrappers, and the option-like result types.
use crate::util::*;
use core::cmp::Ordering;
use crypto_bigint::{
    BoxedUint, Checked, ConstChoice, ConstCtOption, ConstantTimeSelect, Int, Integer, Limb, NonZero, Odd,
    Uint, Wrapping,
};
use std::collections::hash_map::DefaultHasher;
use std::hash::{Hash, Hasher};
use subtle::{
    Choice, ConditionallyNegatable, ConditionallySelectable, ConstantTimeEq, ConstantTimeGreater,
    ConstantTimeLess, CtOption,
};

pub const OPS: &[&str] = &[
    "boxed.cmp",
    "boxed.cmp.nz",
    "boxed.cmp.odd_mixed",
    "boxed.cmp.partial",
    "boxed.cmp_vartime",
    "boxed.conditional_negate",
    "boxed.ct_eq",
    "boxed.ct_eq.ne_not",
    "boxed.ct_eq.nz_op",
    "boxed.ct_eq.odd_mixed",
    "boxed.ct_eq.op",
    "boxed.ct_eq.op_ne",
    "boxed.ct_gt",
    "boxed.ct_lt",
    "boxed.ge",
    "boxed.gt",
    "boxed.hash",
    "boxed.is_even",
    "boxed.is_nonzero",
    "boxed.is_odd",
    "boxed.is_one",
    "boxed.is_one.num",
    "boxed.is_zero",
    "boxed.is_zero.num",
    "boxed.is_zero.trait",
    "boxed.le",
    "boxed.lt",
    "boxed.nz_new",
    "boxed.select",
    "boxed.select.assign",
    "boxed.select.default_assign",
    "boxed.swap",
    "boxed.swap.default",
    "boxed.to_odd",
    "boxed.to_odd.new",
    "int.abs_sign",
    "int.abs_sign.abs",
    "int.cmp",
    "int.cmp.partial",
    "int.cmp_vartime",
    "int.ct_eq",
    "int.ct_eq.ne_not",
    "int.ct_eq.op",
    "int.ct_eq.op_ne",
    "int.ct_gt",
    "int.ct_lt",
    "int.ge",
    "int.gt",
    "int.hash",
    "int.is_max",
    "int.is_min",
    "int.is_negative",
    "int.is_one",
    "int.is_positive",
    "int.is_zero",
    "int.is_zero.num",
    "int.le",
    "int.lt",
    "int.neg_if",
    "int.new_from_abs_sign",
    "int.new_from_abs_sign.ct",
    "int.new_from_abs_sign_expect",
    "int.new_from_abs_sign_expect.unwrap",
    "int.select",
    "int.select.assign",
    "int.select.ct",
    "int.select.ct_assign",
    "int.swap",
    "int.swap.ct",
    "int.to_nz",
    "int.to_odd",
    "limb.cmp",
    "limb.cmp.partial",
    "limb.cmp_vartime",
    "limb.conditional_negate",
    "limb.ct_eq",
    "limb.ct_eq.op",
    "limb.ct_eq.op_ne",
    "limb.ct_gt",
    "limb.ct_lt",
    "limb.ct_ne",
    "limb.eq_vartime",
    "limb.ge",
    "limb.gt",
    "limb.hash",
    "limb.is_odd",
    "limb.is_one",
    "limb.is_zero",
    "limb.is_zero.num",
    "limb.le",
    "limb.lt",
    "limb.nz_new_unwrap",
    "limb.select",
    "limb.select.assign",
    "limb.select.ct",
    "limb.select.ct_assign",
    "limb.swap",
    "limb.swap.ct",
    "limb.to_nz",
    "limb.to_nz.new",
    "uint.cmp",
    "uint.cmp.nz",
    "uint.cmp.odd_mixed",
    "uint.cmp.partial",
    "uint.cmp.wrapping",
    "uint.cmp_vartime",
    "uint.conditional_negate",
    "uint.ct_eq",
    "uint.ct_eq.checked",
    "uint.ct_eq.ne_not",
    "uint.ct_eq.nz",
    "uint.ct_eq.nz_op",
    "uint.ct_eq.odd",
    "uint.ct_eq.odd_mixed",
    "uint.ct_eq.op",
    "uint.ct_eq.op_ne",
    "uint.ct_eq.wrapping",
    "uint.ct_eq.wrapping_op",
    "uint.ct_gt",
    "uint.ct_lt",
    "uint.ctopt",
    "uint.ctopt.as_int",
    "uint.ctopt.ct",
    "uint.ctopt_expect",
    "uint.ctopt_expect.unwrap",
    "uint.ge",
    "uint.gt",
    "uint.hash",
    "uint.is_even",
    "uint.is_odd",
    "uint.is_one",
    "uint.is_zero",
    "uint.is_zero.num",
    "uint.is_zero.wrapping",
    "uint.is_zero.wrapping_num",
    "uint.le",
    "uint.lt",
    "uint.neg_if",
    "uint.nz_new",
    "uint.odd_new",
    "uint.select",
    "uint.select.assign",
    "uint.select.checked",
    "uint.select.ct",
    "uint.select.ct_assign",
    "uint.select.nz",
    "uint.select.odd",
    "uint.select.wrapping",
    "uint.swap",
    "uint.swap.ct",
    "uint.to_nz",
    "uint.to_odd",
];

/// A type that implements only `ct_select`, so that `ct_assign` / `ct_swap` are the trait's default bodies.
#[derive(Clone)]
struct OnlySelect(BoxedUint);
impl ConstantTimeSelect for OnlySelect {
    fn ct_select(a: &Self, b: &Self, choice: Choice) -> Self {
        OnlySelect(BoxedUint::ct_select(&a.0, &b.0, choice))
    }
}

fn hash_of<T: Hash>(x: &T) -> u64 {
    let mut s = DefaultHasher::new();
    x.hash(&mut s);
    s.finish()
}
/// [a == b] [a == b implies hash(a) == hash(b)]
fn hash_out(eq: bool, ha: u64, hb: u64) -> Option<Out> {
    val2(bl(eq), bl(!eq || ha == hb))
}
fn ord(o: Ordering) -> Vec<u64> {
    vec![(o as i8 + 1) as u64]
}
/// A ConstChoice observed through both public conversions (bool::from = "== TRUE", Choice::from = bit 0);
/// 0 / 1 when they agree, 2 / 3 when the word is neither all zeros nor all ones.
fn ccx(c: ConstChoice) -> Vec<u64> {
    let b = bool::from(c) as u64;
    let l = Choice::from(c).unwrap_u8() as u64;
    vec![b + 2 * (b ^ l)]
}
/// ConstCtOption -> [is_some] [is_none] [value if some]
fn cct3<T>(o: ConstCtOption<T>, f: impl Fn(&T) -> Vec<u64>) -> Option<Out> {
    let s = ccx(o.is_some());
    let n = ccx(o.is_none());
    let v: Option<T> = o.into();
    Some(Out::Val(vec![s, n, v.map(|x| f(&x)).unwrap_or_default()]))
}
/// CtOption -> [is_some] [is_none] [value if some]
fn ct3<T>(o: CtOption<T>, f: impl Fn(&T) -> Vec<u64>) -> Option<Out> {
    let s = ch(o.is_some());
    let n = ch(o.is_none());
    let v: Option<T> = o.into();
    Some(Out::Val(vec![s, n, v.map(|x| f(&x)).unwrap_or_default()]))
}

fn limb_ops(op: &str, a: &Args) -> Option<Out> {
    let x = Limb(sc(a, 0));
    let y = Limb(sc(a, 1));
    match op {
        "limb.ct_eq" => val1(ch(x.ct_eq(&y))),
        "limb.ct_eq.op" => val1(bl(x == y)),
        "limb.ct_eq.op_ne" => val1(bl(!(x != y))),
        "limb.ct_ne" => val1(ch(x.ct_ne(&y))),
        "limb.eq_vartime" => val1(bl(x.eq_vartime(&y))),
        "limb.ct_lt" => val1(ch(x.ct_lt(&y))),
        "limb.ct_gt" => val1(ch(x.ct_gt(&y))),
        "limb.cmp" => val1(ord(Ord::cmp(&x, &y))),
        "limb.cmp.partial" => val1(ord(x.partial_cmp(&y)?)),
        "limb.cmp_vartime" => val1(ord(x.cmp_vartime(&y))),
        "limb.lt" => val1(bl(x < y)),
        "limb.le" => val1(bl(x <= y)),
        "limb.gt" => val1(bl(x > y)),
        "limb.ge" => val1(bl(x >= y)),
        "limb.is_zero" => val1(ch(crypto_bigint::Zero::is_zero(&x))),
        "limb.is_zero.num" => val1(bl(num_traits::Zero::is_zero(&x))),
        "limb.is_one" => val1(bl(num_traits::One::is_one(&x))),
        "limb.is_odd" => val1(ch(x.is_odd())),
        "limb.to_nz" => cct3(x.to_nz(), |r| lv(r.get())),
        "limb.nz_new_unwrap" => val1(lv(NonZero::<Limb>::new_unwrap(x).get())),
        "limb.to_nz.new" => ct3(NonZero::new(x), |r| lv(r.get())),
        "limb.select" => val1(lv(Limb::conditional_select(&x, &y, choice(sc(a, 2))))),
        "limb.select.ct" => val1(lv(<Limb as ConstantTimeSelect>::ct_select(&x, &y, choice(sc(a, 2))))),
        "limb.select.assign" => { let mut r = x; r.conditional_assign(&y, choice(sc(a, 2))); val1(lv(r)) }
        "limb.select.ct_assign" => { let mut r = x; ConstantTimeSelect::ct_assign(&mut r, &y, choice(sc(a, 2))); val1(lv(r)) }
        "limb.swap" => { let (mut p, mut q) = (x, y); Limb::conditional_swap(&mut p, &mut q, choice(sc(a, 2))); val2(lv(p), lv(q)) }
        "limb.swap.ct" => { let (mut p, mut q) = (x, y); <Limb as ConstantTimeSelect>::ct_swap(&mut p, &mut q, choice(sc(a, 2))); val2(lv(p), lv(q)) }
        "limb.conditional_negate" => { let mut w = Wrapping(x); w.conditional_negate(choice(sc(a, 1))); val1(lv(w.0)) }
        "limb.hash" => hash_out(x == y, hash_of(&x), hash_of(&y)),
        _ => None,
    }
}

fn uint_ops<const N: usize>(op: &str, a: &Args) -> Option<Out> {
    let x: Uint<N> = u(ar(a, 0));
    match op {
        "uint.is_zero" => return val1(ch(crypto_bigint::Zero::is_zero(&x))),
        "uint.is_zero.num" => return val1(bl(num_traits::Zero::is_zero(&x))),
        "uint.is_zero.wrapping" => return val1(ch(crypto_bigint::Zero::is_zero(&Wrapping(x)))),
        "uint.is_zero.wrapping_num" => return val1(bl(num_traits::Zero::is_zero(&Wrapping(x)))),
        "uint.is_one" => return val1(bl(num_traits::One::is_one(&x))),
        "uint.is_odd" => return val1(ch(Integer::is_odd(&x))),
        "uint.is_even" => return val1(ch(Integer::is_even(&x))),
        "uint.to_nz" => return cct3(x.to_nz(), |r| uv(&r.get())),
        "uint.to_odd" => return cct3(x.to_odd(), |r| uv(&r.get())),
        "uint.nz_new" => return ct3(NonZero::new(x), |r| uv(&r.get())),
        "uint.odd_new" => return ct3(Odd::new(x), |r| uv(&r.get())),
        // args: x, is_some
        "uint.ctopt_expect" | "uint.ctopt_expect.unwrap" => {
            let o = x.overflowing_shl_vartime(if sc(a, 1) != 0 { 0 } else { Uint::<N>::BITS });
            return if op == "uint.ctopt_expect" { val1(uv(&o.expect("some"))) } else { val1(uv(&o.unwrap())) };
        }
        "uint.neg_if" => return val1(uv(&x.wrapping_neg_if(cchoice(sc(a, 1))))),
        "uint.conditional_negate" => { let mut w = Wrapping(x); w.conditional_negate(choice(sc(a, 1))); return val1(uv(&w.0)); }
        _ => {}
    }
    let y: Uint<N> = u(ar(a, 1));
    let c = choice(sc(a, 2));
    match op {
        "uint.ct_eq" => val1(ch(x.ct_eq(&y))),
        "uint.ct_eq.ne_not" => val1(ch(!x.ct_ne(&y))),
        "uint.ct_eq.op" => val1(bl(x == y)),
        "uint.ct_eq.op_ne" => val1(bl(!(x != y))),
        "uint.ct_eq.wrapping" => val1(ch(Wrapping(x).ct_eq(&Wrapping(y)))),
        "uint.ct_eq.wrapping_op" => val1(bl(Wrapping(x) == Wrapping(y))),
        "uint.ct_eq.nz" => {
            let (p, q): (Option<NonZero<Uint<N>>>, Option<NonZero<Uint<N>>>) = (NonZero::new(x).into(), NonZero::new(y).into());
            match (p, q) {
                (Some(p), Some(q)) => val1(ch(p.ct_eq(&q))),
                _ => val1(ch(x.ct_eq(&y))),
            }
        }
        "uint.ct_eq.nz_op" => {
            let (p, q): (Option<NonZero<Uint<N>>>, Option<NonZero<Uint<N>>>) = (NonZero::new(x).into(), NonZero::new(y).into());
            match (p, q) {
                (Some(p), Some(q)) => val1(bl(p == q)),
                _ => val1(bl(x == y)),
            }
        }
        "uint.ct_eq.odd" => {
            let (p, q): (Option<Odd<Uint<N>>>, Option<Odd<Uint<N>>>) = (Odd::new(x).into(), Odd::new(y).into());
            match (p, q) {
                (Some(p), Some(q)) => val1(ch(p.ct_eq(&q))),
                _ => val1(ch(x.ct_eq(&y))),
            }
        }
        "uint.ct_eq.checked" => val1(ch(Checked::new(x).ct_eq(&Checked::new(y)))),
        "uint.ct_eq.odd_mixed" => {
            let q: Option<Odd<Uint<N>>> = Odd::new(y).into();
            match q { Some(q) => val1(bl(x == q)), None => val1(bl(x == y)) }
        }
        "uint.ct_lt" => val1(ch(x.ct_lt(&y))),
        "uint.ct_gt" => val1(ch(x.ct_gt(&y))),
        "uint.cmp" => val1(ord(Ord::cmp(&x, &y))),
        "uint.cmp.partial" => val1(ord(x.partial_cmp(&y)?)),
        "uint.cmp.wrapping" => val1(ord(Ord::cmp(&Wrapping(x), &Wrapping(y)))),
        "uint.cmp.nz" => {
            let (p, q): (Option<NonZero<Uint<N>>>, Option<NonZero<Uint<N>>>) = (NonZero::new(x).into(), NonZero::new(y).into());
            match (p, q) { (Some(p), Some(q)) => val1(ord(Ord::cmp(&p, &q))), _ => val1(ord(Ord::cmp(&x, &y))) }
        }
        "uint.cmp.odd_mixed" => {
            let q: Option<Odd<Uint<N>>> = Odd::new(y).into();
            match q { Some(q) => val1(ord(x.partial_cmp(&q)?)), None => val1(ord(x.partial_cmp(&y)?)) }
        }
        "uint.cmp_vartime" => val1(ord(x.cmp_vartime(&y))),
        "uint.lt" => val1(bl(x < y)),
        "uint.le" => val1(bl(x <= y)),
        "uint.gt" => val1(bl(x > y)),
        "uint.ge" => val1(bl(x >= y)),
        "uint.select" => val1(uv(&Uint::conditional_select(&x, &y, c))),
        "uint.select.ct" => val1(uv(&<Uint<N> as ConstantTimeSelect>::ct_select(&x, &y, c))),
        "uint.select.assign" => { let mut r = x; r.conditional_assign(&y, c); val1(uv(&r)) }
        "uint.select.ct_assign" => { let mut r = x; ConstantTimeSelect::ct_assign(&mut r, &y, c); val1(uv(&r)) }
        "uint.select.wrapping" => val1(uv(&Wrapping::conditional_select(&Wrapping(x), &Wrapping(y), c).0)),
        "uint.select.nz" => {
            let (p, q): (Option<NonZero<Uint<N>>>, Option<NonZero<Uint<N>>>) = (NonZero::new(x).into(), NonZero::new(y).into());
            match (p, q) {
                (Some(p), Some(q)) => val1(uv(&NonZero::conditional_select(&p, &q, c).get())),
                _ => val1(uv(&Uint::conditional_select(&x, &y, c))),
            }
        }
        "uint.select.odd" => {
            let (p, q): (Option<Odd<Uint<N>>>, Option<Odd<Uint<N>>>) = (Odd::new(x).into(), Odd::new(y).into());
            match (p, q) {
                (Some(p), Some(q)) => val1(uv(&Odd::conditional_select(&p, &q, c).get())),
                _ => val1(uv(&Uint::conditional_select(&x, &y, c))),
            }
        }
        "uint.select.checked" => ctopt(Checked::conditional_select(&Checked::new(x), &Checked::new(y), c).0, uv),
        "uint.swap" => { let (mut p, mut q) = (x, y); Uint::conditional_swap(&mut p, &mut q, c); val2(uv(&p), uv(&q)) }
        "uint.swap.ct" => { let (mut p, mut q) = (x, y); <Uint<N> as ConstantTimeSelect>::ct_swap(&mut p, &mut q, c); val2(uv(&p), uv(&q)) }
        "uint.hash" => hash_out(x == y, hash_of(&x), hash_of(&y)),
        // args: x, def, flag.  Some(x) = x.overflowing_shl_vartime(0); None = x.overflowing_shl_vartime(BITS)
        "uint.ctopt" | "uint.ctopt.ct" | "uint.ctopt.as_int" => {
            let o = x.overflowing_shl_vartime(if sc(a, 2) != 0 { 0 } else { Uint::<N>::BITS });
            match op {
                "uint.ctopt" => {
                    let (s, n) = (ccx(o.is_some()), ccx(o.is_none()));
                    let d = o.clone().unwrap_or(y);
                    let v: Option<Uint<N>> = o.into();
                    Some(Out::Val(vec![s, n, uv(&d), v.map(|r| uv(&r)).unwrap_or_default()]))
                }
                "uint.ctopt.ct" => {
                    let o: CtOption<Uint<N>> = o.into();
                    let (s, n) = (ch(o.is_some()), ch(o.is_none()));
                    let d = o.unwrap_or(y);
                    let v: Option<Uint<N>> = o.into();
                    Some(Out::Val(vec![s, n, uv(&d), v.map(|r| uv(&r)).unwrap_or_default()]))
                }
                _ => {
                    let o = o.as_int();
                    let (s, n) = (ccx(o.is_some()), ccx(o.is_none()));
                    let d = o.clone().unwrap_or(y.as_int());
                    let v: Option<Int<N>> = o.into();
                    Some(Out::Val(vec![s, n, iv(&d), v.map(|r| iv(&r)).unwrap_or_default()]))
                }
            }
        }
        _ => None,
    }
}

fn int_ops<const N: usize>(op: &str, a: &Args) -> Option<Out> {
    let x: Int<N> = si(ar(a, 0));
    match op {
        "int.is_zero" => return val1(ch(crypto_bigint::Zero::is_zero(&x))),
        "int.is_zero.num" => return val1(bl(num_traits::Zero::is_zero(&x))),
        "int.is_one" => return val1(bl(num_traits::One::is_one(&x))),
        "int.is_negative" => return val1(ccx(x.is_negative())),
        "int.is_positive" => return val1(ccx(x.is_positive())),
        "int.is_min" => return val1(ccx(x.is_min())),
        "int.is_max" => return val1(ccx(x.is_max())),
        "int.to_nz" => return cct3(x.to_nz(), |r| iv(&r.get())),
        "int.to_odd" => return cct3(x.to_odd(), |r| iv(&r.get())),
        "int.neg_if" => return val1(iv(&x.wrapping_neg_if(cchoice(sc(a, 1))))),
        "int.abs_sign" => { let (m, sg) = x.abs_sign(); return val2(uv(&m), ccx(sg)); }
        "int.abs_sign.abs" => { let m = x.abs(); return val2(uv(&m), ccx(x.is_negative())); }
        "int.new_from_abs_sign_expect" | "int.new_from_abs_sign_expect.unwrap" => {
            let o = Int::<N>::new_from_abs_sign(u(ar(a, 0)), cchoice(sc(a, 1)));
            return if op == "int.new_from_abs_sign_expect" { val1(iv(&o.expect("fits"))) } else { val1(iv(&o.unwrap())) };
        }
        // args: abs, neg, def
        "int.new_from_abs_sign" | "int.new_from_abs_sign.ct" => {
            let o = Int::<N>::new_from_abs_sign(u(ar(a, 0)), cchoice(sc(a, 1)));
            let def: Int<N> = si(ar(a, 2));
            if op == "int.new_from_abs_sign" {
                let (s, n) = (ccx(o.is_some()), ccx(o.is_none()));
                let d = o.clone().unwrap_or(def);
                let v: Option<Int<N>> = o.into();
                return Some(Out::Val(vec![s, n, iv(&d), v.map(|r| iv(&r)).unwrap_or_default()]));
            } else {
                let o: CtOption<Int<N>> = o.into();
                let (s, n) = (ch(o.is_some()), ch(o.is_none()));
                let d = o.unwrap_or(def);
                let v: Option<Int<N>> = o.into();
                return Some(Out::Val(vec![s, n, iv(&d), v.map(|r| iv(&r)).unwrap_or_default()]));
            }
        }
        _ => {}
    }
    let y: Int<N> = si(ar(a, 1));
    let c = choice(sc(a, 2));
    match op {
        "int.ct_eq" => val1(ch(x.ct_eq(&y))),
        "int.ct_eq.ne_not" => val1(ch(!x.ct_ne(&y))),
        "int.ct_eq.op" => val1(bl(x == y)),
        "int.ct_eq.op_ne" => val1(bl(!(x != y))),
        "int.ct_lt" => val1(ch(x.ct_lt(&y))),
        "int.ct_gt" => val1(ch(x.ct_gt(&y))),
        "int.cmp" => val1(ord(Ord::cmp(&x, &y))),
        "int.cmp.partial" => val1(ord(x.partial_cmp(&y)?)),
        "int.cmp_vartime" => val1(ord(x.cmp_vartime(&y))),
        "int.lt" => val1(bl(x < y)),
        "int.le" => val1(bl(x <= y)),
        "int.gt" => val1(bl(x > y)),
        "int.ge" => val1(bl(x >= y)),
        "int.select" => val1(iv(&Int::conditional_select(&x, &y, c))),
        "int.select.ct" => val1(iv(&<Int<N> as ConstantTimeSelect>::ct_select(&x, &y, c))),
        "int.select.assign" => { let mut r = x; r.conditional_assign(&y, c); val1(iv(&r)) }
        "int.select.ct_assign" => { let mut r = x; ConstantTimeSelect::ct_assign(&mut r, &y, c); val1(iv(&r)) }
        "int.swap" => { let (mut p, mut q) = (x, y); Int::conditional_swap(&mut p, &mut q, c); val2(iv(&p), iv(&q)) }
        "int.swap.ct" => { let (mut p, mut q) = (x, y); <Int<N> as ConstantTimeSelect>::ct_swap(&mut p, &mut q, c); val2(iv(&p), iv(&q)) }
        "int.hash" => hash_out(x == y, hash_of(&x), hash_of(&y)),
        _ => None,
    }
}

fn boxed_ops(op: &str, a: &Args) -> Option<Out> {
    let x = bx(ar(a, 0));
    match op {
        "boxed.is_zero" => return val1(ch(x.is_zero())),
        "boxed.is_zero.trait" => return val1(ch(crypto_bigint::Zero::is_zero(&x))),
        "boxed.is_zero.num" => return val1(bl(num_traits::Zero::is_zero(&x))),
        "boxed.is_nonzero" => return val1(ch(x.is_nonzero())),
        "boxed.is_one" => return val1(ch(x.is_one())),
        "boxed.is_one.num" => return val1(bl(num_traits::One::is_one(&x))),
        "boxed.is_odd" => return val1(ch(Integer::is_odd(&x))),
        "boxed.is_even" => return val1(ch(Integer::is_even(&x))),
        "boxed.to_odd" => return ct3(x.to_odd(), |r| bv(r.as_ref())),
        "boxed.to_odd.new" => return ct3(Odd::new(x), |r| bv(r.as_ref())),
        "boxed.nz_new" => return ct3(NonZero::new(x), |r| bv(r.as_ref())),
        "boxed.conditional_negate" => { let mut r = x; r.conditional_negate(choice(sc(a, 1))); return val1(bv(&r)); }
        _ => {}
    }
    let y = bx(ar(a, 1));
    let c = choice(sc(a, 2));
    match op {
        "boxed.ct_eq" => val1(ch(x.ct_eq(&y))),
        "boxed.ct_eq.ne_not" => val1(ch(!x.ct_ne(&y))),
        "boxed.ct_eq.op" => val1(bl(x == y)),
        "boxed.ct_eq.op_ne" => val1(bl(!(x != y))),
        "boxed.ct_eq.odd_mixed" => {
            let q: Option<Odd<BoxedUint>> = Odd::new(y.clone()).into();
            match q { Some(q) => val1(bl(x == q)), None => val1(bl(x == y)) }
        }
        "boxed.ct_eq.nz_op" => {
            let (p, q): (Option<NonZero<BoxedUint>>, Option<NonZero<BoxedUint>>) = (NonZero::new(x.clone()).into(), NonZero::new(y.clone()).into());
            match (p, q) { (Some(p), Some(q)) => val1(bl(p == q)), _ => val1(bl(x == y)) }
        }
        "boxed.cmp.nz" => {
            let (p, q): (Option<NonZero<BoxedUint>>, Option<NonZero<BoxedUint>>) = (NonZero::new(x.clone()).into(), NonZero::new(y.clone()).into());
            match (p, q) { (Some(p), Some(q)) => val1(ord(Ord::cmp(&p, &q))), _ => val1(ord(Ord::cmp(&x, &y))) }
        }
        // the default method bodies of trait ConstantTimeSelect (src/traits.rs), through a type that only provides ct_select
        "boxed.select.default_assign" => { let mut r = OnlySelect(x); r.ct_assign(&OnlySelect(y), c); val1(bv(&r.0)) }
        "boxed.swap.default" => { let (mut p, mut q) = (OnlySelect(x), OnlySelect(y)); OnlySelect::ct_swap(&mut p, &mut q, c); val2(bv(&p.0), bv(&q.0)) }
        "boxed.ct_lt" => val1(ch(x.ct_lt(&y))),
        "boxed.ct_gt" => val1(ch(x.ct_gt(&y))),
        "boxed.cmp" => val1(ord(Ord::cmp(&x, &y))),
        "boxed.cmp.partial" => val1(ord(x.partial_cmp(&y)?)),
        "boxed.cmp.odd_mixed" => {
            let q: Option<Odd<BoxedUint>> = Odd::new(y.clone()).into();
            match q { Some(q) => val1(ord(x.partial_cmp(&q)?)), None => val1(ord(x.partial_cmp(&y)?)) }
        }
        "boxed.cmp_vartime" => val1(ord(x.cmp_vartime(&y))),
        "boxed.lt" => val1(bl(x < y)),
        "boxed.le" => val1(bl(x <= y)),
        "boxed.gt" => val1(bl(x > y)),
        "boxed.ge" => val1(bl(x >= y)),
        "boxed.select" => val1(bv(&BoxedUint::ct_select(&x, &y, c))),
        "boxed.select.assign" => { let mut r = x; r.ct_assign(&y, c); val1(bv(&r)) }
        "boxed.swap" => { let (mut p, mut q) = (x, y); BoxedUint::ct_swap(&mut p, &mut q, c); val2(bv(&p), bv(&q)) }
        "boxed.hash" => hash_out(x == y, hash_of(&x), hash_of(&y)),
        _ => None,
    }
}

pub fn run(op: &str, a: &Args) -> Option<Out> {
    if !OPS.contains(&op) {
        return None;
    }
    if op.starts_with("limb.") {
        limb_ops(op, a)
    } else if op.starts_with("uint.") {
        with_n!(ar(a, 0).len(), [1, 2, 3, 4, 5, 6, 8, 12, 16, 32], uint_ops, op, a)
    } else if op.starts_with("int.") {
        with_n!(ar(a, 0).len(), [1, 2, 3, 4, 5, 6, 8, 12, 16, 32], int_ops, op, a)
    } else if op.starts_with("boxed.") {
        boxed_ops(op, a)
    } else {
        None
    }
}
