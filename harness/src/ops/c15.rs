//! C15 adapters: values computed in a const context versus at run time (the other route pairs of C15 are
//! formed by tools/vlib/c15.py from the adapters of the owning properties).
use crate::util::*;
use core::hint::black_box;
use crypto_bigint::{Limb, NonZero, Odd, U128, U256, U64, Uint, U1024};

pub const OPS: &[&str] = &["const.pairs"];

const A: U256 = U256::from_be_hex("ffffffff00000001000000000000000000000000fffffffffffffffffffffffe");
const B_: U256 = U256::from_be_hex("8000000000000000ffffffffffffffff00000000000000017fffffffffffffff");
const P: U256 = U256::from_be_hex("ffffffff00000000ffffffffffffffffbce6faada7179e84f3b9cac2fc632551");
const S: U128 = U128::from_be_hex("fffffffffffffffe0000000000000001");
const W: U1024 = U1024::from_be_hex(concat!(
    "ffffffffffffffffffffffffffffffffffffffffffffffffffffffffffffffff", "0000000000000000000000000000000000000000000000000000000000000001",
    "8000000000000000000000000000000000000000000000000000000000000000", "fffffffffffffffffffffffffffffffe00000000000000010000000000000000"));
const PN: NonZero<U256> = NonZero::<U256>::new_unwrap(P);
const PO: Odd<U256> = Odd::<U256>::from_be_hex("ffffffff00000000ffffffffffffffffbce6faada7179e84f3b9cac2fc632551");

const C_ADD: U256 = A.wrapping_add(&B_);
const C_SUB: U256 = B_.wrapping_sub(&A);
const C_NEG: U256 = A.wrapping_neg();
const C_MUL: (U256, U256) = A.split_mul(&B_);
const C_SQ: (U256, U256) = B_.square_wide();
const C_WMUL: (U1024, U1024) = W.split_mul(&W);
const C_DIVREM: (U256, U256) = A.div_rem(&PN);
const C_DIVREMV: (U256, U256) = A.div_rem_vartime(&PN);
const C_REMW: U256 = U256::rem_wide_vartime((A, B_), &PN);
const C_SHL: U256 = A.shl(77);
const C_SHLV: U256 = A.shl_vartime(77);
const C_SHR: U256 = A.shr(131);
const C_SHRV: U256 = A.shr_vartime(131);
const C_BITS: u32 = B_.shr_vartime(9).bits();
const C_TZ: u32 = B_.wrapping_add(&U256::ONE).trailing_zeros();
const C_ADDMOD: U256 = A.add_mod(&B_.shr_vartime(1), &P);
const C_SUBMOD: U256 = B_.shr_vartime(1).sub_mod(&A, &P);
const C_NEGMOD: U256 = A.neg_mod(&P);
const C_MULSP: U256 = A.shr_vartime(1).mul_mod_special(&B_, Limb(189));
const C_SQRT: U256 = A.sqrt();
const C_SQRTV: U256 = A.sqrt_vartime();
const C_INV2K: U256 = match Option::<U256>::None { _ => B_.inv_mod2k(201).unwrap_or(U256::ZERO) };
const C_INVODD: U256 = A.inv_odd_mod(&PO).unwrap_or(U256::ZERO);
const C_GCD: U256 = A.gcd(&B_);
const C_S128: (U128, U128) = S.split_mul(&S);
const C_HEX: U64 = U64::from_be_hex("0123456789abcdef");
const C_CMP: i8 = A.cmp_vartime(&B_) as i8;

fn pair<const N: usize>(out: &mut Vec<Vec<u64>>, c: &Uint<N>, r: &Uint<N>) {
    out.push(uv(c));
    out.push(uv(r));
}

pub fn run(op: &str, _a: &Args) -> Option<Out> {
    if op != "const.pairs" { return None; }
    let (a, b, p, s, w) = (black_box(A), black_box(B_), black_box(P), black_box(S), black_box(W));
    let pn = black_box(PN);
    let po = black_box(PO);
    let mut o: Vec<Vec<u64>> = vec![];
    pair(&mut o, &C_ADD, &a.wrapping_add(&b));
    pair(&mut o, &C_SUB, &b.wrapping_sub(&a));
    pair(&mut o, &C_NEG, &a.wrapping_neg());
    let m = a.split_mul(&b); pair(&mut o, &C_MUL.0, &m.0); pair(&mut o, &C_MUL.1, &m.1);
    let q = b.square_wide(); pair(&mut o, &C_SQ.0, &q.0); pair(&mut o, &C_SQ.1, &q.1);
    let ww = w.split_mul(&w); pair(&mut o, &C_WMUL.0, &ww.0); pair(&mut o, &C_WMUL.1, &ww.1);
    let d = a.div_rem(&pn); pair(&mut o, &C_DIVREM.0, &d.0); pair(&mut o, &C_DIVREM.1, &d.1);
    let dv = a.div_rem_vartime(&pn); pair(&mut o, &C_DIVREMV.0, &dv.0); pair(&mut o, &C_DIVREMV.1, &dv.1);
    pair(&mut o, &C_REMW, &U256::rem_wide_vartime((a, b), &pn));
    pair(&mut o, &C_SHL, &a.shl(black_box(77)));
    pair(&mut o, &C_SHLV, &a.shl_vartime(black_box(77)));
    pair(&mut o, &C_SHR, &a.shr(black_box(131)));
    pair(&mut o, &C_SHRV, &a.shr_vartime(black_box(131)));
    o.push(vec![C_BITS as u64]); o.push(vec![b.shr_vartime(9).bits() as u64]);
    o.push(vec![C_TZ as u64]); o.push(vec![b.wrapping_add(&U256::ONE).trailing_zeros() as u64]);
    pair(&mut o, &C_ADDMOD, &a.add_mod(&b.shr_vartime(1), &p));
    pair(&mut o, &C_SUBMOD, &b.shr_vartime(1).sub_mod(&a, &p));
    pair(&mut o, &C_NEGMOD, &a.neg_mod(&p));
    pair(&mut o, &C_MULSP, &a.shr_vartime(1).mul_mod_special(&b, black_box(Limb(189))));
    pair(&mut o, &C_SQRT, &a.sqrt());
    pair(&mut o, &C_SQRTV, &a.sqrt_vartime());
    pair(&mut o, &C_INV2K, &b.inv_mod2k(black_box(201)).unwrap_or(U256::ZERO));
    pair(&mut o, &C_INVODD, &a.inv_odd_mod(&po).unwrap_or(U256::ZERO));
    pair(&mut o, &C_GCD, &a.gcd(&b));
    let s2 = s.split_mul(&s); pair(&mut o, &C_S128.0, &s2.0); pair(&mut o, &C_S128.1, &s2.1);
    pair(&mut o, &C_HEX, &U64::from_be_hex(black_box("0123456789abcdef")));
    o.push(vec![(C_CMP as i64 + 1) as u64]); o.push(vec![(a.cmp_vartime(&b) as i8 as i64 + 1) as u64]);
    Some(Out::Val(o))
}
