//! C15 (continued, 2) adapters: the GLUE AROUND THE MONTGOMERY FORMS that no other adapter executes --
//! `BoxedMontyForm::{bits_precision, is_zero, is_nonzero, params}`, `Monty::params` (MontyForm, BoxedMontyForm),
//! `ConstantTimeEq` for MontyForm / MontyParams, `ConstMontyForm::as_montgomery_mut`, num_traits `Zero::is_zero` and serde
//! `Serialize` / `Deserialize` of ConstMontyForm, `Zeroize` for MontyForm / MontyParams / BoxedMontyForm, `fmt::Debug` of the
//! three inverter types.
//! A rust op is `<model op>.<route>`; the generator (tools/vlib/c15s.py) names the model op explicitly. Routes that build a
//! form and hand it on map to the single-step histories of C08 (`monty.history` / `monty.boxed_history`: output =
//! as_montgomery, retrieve), predicates map to the model ops of C06 / C16 (`boxed.is_zero`, `uint.is_zero`, `uint.ct_eq`,
//! `uint.serde_ser`), the rest maps to the keys of coq/Model/Glue2.v (`glue2.*`).
//! The compile-time moduli are the `impl_modulus!` types of ops/c08.rs (one, three, max, rnd at 1..4 limbs).
use super::c08::{
    M1_max, M1_one, M1_rnd, M1_three, M2_max, M2_one, M2_rnd, M2_three, M3_max, M3_one, M3_rnd, M3_three, M4_max, M4_one, M4_rnd,
    M4_three,
};
use crate::util::*;
use crypto_bigint::modular::{
    BoxedMontyForm, BoxedMontyParams, ConstMontyForm, ConstMontyFormInverter, ConstMontyParams, MontyForm, MontyParams,
};
use crypto_bigint::zeroize::Zeroize;
use crypto_bigint::{BoxedUint, Limb, Monty, Odd, PrecomputeInverter, Uint};
use subtle::ConstantTimeEq;

pub const OPS: &[&str] = &[
    // ---- single-step histories (New x): the form is rebuilt from what the accessor under test returns
    "monty.history.params_inherent", "monty.history.params_trait",
    "monty.history.const_as_mut", "monty.history.const_serde",
    "monty.boxed_history.params_inherent", "monty.boxed_history.params_trait",
    // ---- predicates on the stored representative
    "boxed.is_zero.monty_form", "boxed.is_nonzero.monty_form",
    "uint.is_zero.const_monty_num", "uint.ct_eq.monty_form", "uint.serde_ser.const_monty",
    // ---- keys of coq/Model/Glue2.v
    "glue2.params_ct_eq", "glue2.params_ct_eq.const_dyn",
    "glue2.monty_ct_eq",
    "glue2.params_ct_eq_lz", "glue2.params_eq_lz",
    "glue2.cmf_serde_de",
    "glue2.zeroize_monty_form", "glue2.zeroize_monty_form.new", "glue2.zeroize_monty_params",
    "glue2.zeroize_boxed_form", "glue2.zeroize_boxed_form.new",
    "glue2.form_bits_precision",
    "glue2.debug_nonempty.monty", "glue2.debug_nonempty.const", "glue2.debug_nonempty.boxed",
];

// ---------------------------------------------------------------- helpers
fn by(a: &Args, i: usize) -> Vec<u8> {
    ar(a, i)
        .iter()
        .map(|&w| {
            assert!(w < 256, "harness: byte argument out of range");
            w as u8
        })
        .collect()
}
fn bo(b: &[u8]) -> Vec<u64> {
    b.iter().map(|&x| x as u64).collect()
}
/// hexadecimal digits (big endian) -> n little-endian words
fn hex_words(h: &str, n: usize) -> Vec<u64> {
    let mut w = vec![0u64; n];
    for (k, ch) in h.bytes().rev().enumerate() {
        let d = (ch as char).to_digit(16).expect("harness: hex digit") as u64;
        if k / 16 < n {
            w[k / 16] |= d << (4 * (k % 16));
        } else {
            assert_eq!(d, 0, "harness: value wider than expected");
        }
    }
    w
}
/// every field of the derived Debug output
/// `.. { modulus: Odd(X(0x..)), one: X(0x..), r2: X(0x..), r3: X(0x..), mod_neg_inv: Limb(0x..), mod_leading_zeros: d }`:
/// modulus, one, r2, r3, [mod_neg_inv], [mod_leading_zeros]
fn params_fields(s: &str, n: usize) -> Vec<Vec<u64>> {
    fn after<'a>(s: &'a str, key: &str) -> &'a str {
        let p = s.find(key).expect("harness: params field");
        &s[p + key.len()..]
    }
    fn hex_field<'a>(s: &'a str, key: &str) -> &'a str {
        let t = after(s, key);
        let t = &t[t.find("0x").expect("harness: hex") + 2..];
        &t[..t.find(')').expect("harness: paren")]
    }
    let lz_s = after(s, "mod_leading_zeros: ");
    let lz: u64 = lz_s[..lz_s.find(|c: char| !c.is_ascii_digit()).unwrap_or(lz_s.len())].parse().expect("harness: lz");
    vec![
        hex_words(hex_field(s, "modulus: "), n),
        hex_words(hex_field(s, " one: "), n),
        hex_words(hex_field(s, " r2: "), n),
        hex_words(hex_field(s, " r3: "), n),
        hex_words(hex_field(s, " mod_neg_inv: "), 1),
        vec![lz],
    ]
}
fn odd_uint<const N: usize>(m: &[u64]) -> Odd<Uint<N>> {
    Option::from(Odd::new(u::<N>(m))).expect("harness: even modulus")
}
fn odd_boxed(m: &[u64]) -> Odd<BoxedUint> {
    Option::from(Odd::new(bx(m))).expect("harness: even modulus")
}
fn boxed_params(m: &[u64], cfg: u64) -> BoxedMontyParams {
    match cfg % 3 {
        0 => BoxedMontyParams::new(odd_boxed(m)),
        1 => BoxedMontyParams::new_vartime(odd_boxed(m)),
        _ => <BoxedMontyForm as Monty>::new_params_vartime(odd_boxed(m)),
    }
}
/// the op list of a single-step history: New(input 0)
fn single_new(a: &Args) {
    let ops = ar(a, 2);
    assert!(ops.len() == 4 && ops[0] == 0 && ops[1] == 0, "harness: not a single New step");
}
/// 1 when the Debug text is `<name> { modulus: .. }`
fn debug_ok(s: &str, name: &str) -> Option<Out> {
    let ok = !s.is_empty() && s.starts_with(name) && s.contains("modulus") && s.len() > name.len() + 12;
    val1(bl(ok))
}

// ---------------------------------------------------------------- hand-written ConstMontyParams: the constants of
// impl_modulus!(.., U64, "3") except MOD_LEADING_ZEROS (the honest value is 62)
#[derive(Clone, Copy, Debug, Default, Eq, PartialEq)]
pub struct Lz3<const L: u32>;
impl<const L: u32> ConstMontyParams<1> for Lz3<L> {
    const LIMBS: usize = 1;
    const MODULUS: Odd<Uint<1>> = <M1_three as ConstMontyParams<1>>::MODULUS;
    const ONE: Uint<1> = <M1_three as ConstMontyParams<1>>::ONE;
    const R2: Uint<1> = <M1_three as ConstMontyParams<1>>::R2;
    const R3: Uint<1> = <M1_three as ConstMontyParams<1>>::R3;
    const MOD_NEG_INV: Limb = <M1_three as ConstMontyParams<1>>::MOD_NEG_INV;
    const MOD_LEADING_ZEROS: u32 = L;
}
fn lz_params(l: u64) -> Option<MontyParams<1>> {
    Some(match l {
        0 => MontyParams::from_const_params::<Lz3<0>>(),
        1 => MontyParams::from_const_params::<Lz3<1>>(),
        61 => MontyParams::from_const_params::<Lz3<61>>(),
        62 => MontyParams::from_const_params::<Lz3<62>>(),
        63 => MontyParams::from_const_params::<Lz3<63>>(),
        _ => return None,
    })
}
fn lz_ops(op: &str, a: &Args) -> Option<Out> {
    assert_eq!(ar(a, 0), &[3u64][..], "harness: the Lz3 parameter sets are those of the modulus 3");
    let (p, q) = (lz_params(sc(a, 1))?, lz_params(sc(a, 2))?);
    match op {
        "glue2.params_ct_eq_lz" => val1(ch(p.ct_eq(&q))),
        "glue2.params_eq_lz" => val1(bl(p == q)),
        _ => None,
    }
}

// ---------------------------------------------------------------- MontyForm<N> / MontyParams<N> at a concrete width
macro_rules! dyn_arm {
    ($N:literal, $op:expr, $a:expr) => {{
        let a: &Args = $a;
        let op: &str = $op;
        let mk = |m: &[u64], cfg: u64| -> MontyParams<$N> {
            match cfg % 3 {
                0 => MontyParams::<$N>::new(odd_uint::<$N>(m)),
                1 => MontyParams::<$N>::new_vartime(odd_uint::<$N>(m)),
                _ => <MontyForm<$N> as Monty>::new_params_vartime(odd_uint::<$N>(m)),
            }
        };
        // representative, then every parameter field
        let all = |f: &MontyForm<$N>| -> Option<Out> {
            let mut v = vec![uv(&f.to_montgomery())];
            v.extend(params_fields(&format!("{:?}", f.params()), $N));
            // the modulus accessor and the Debug text show the same field
            assert_eq!(uv(f.params().modulus().as_ref()), v[1], "harness: modulus accessor");
            Some(Out::Val(v))
        };
        match op {
            // args: m, cfg, ops, x0
            "monty.history.params_inherent" | "monty.history.params_trait" => {
                single_new(a);
                let x: Uint<$N> = u(ar(a, 3));
                let f = MontyForm::new(&x, mk(ar(a, 0), sc(a, 1)));
                let q: &MontyParams<$N> = if op.ends_with("_trait") { <MontyForm<$N> as Monty>::params(&f) } else { f.params() };
                // both ways: the representative under the returned parameters, and a fresh conversion with them
                let g = MontyForm::from_montgomery(f.to_montgomery(), *q);
                let h = MontyForm::new(&x, *q);
                assert!(bool::from(g.ct_eq(&h)), "harness: params() round trip");
                Some(Out::Val(vec![uv(g.as_montgomery()), uv(&h.retrieve())]))
            }
            // args: r1, r2, m, cfg (one parameter set)
            "uint.ct_eq.monty_form" => {
                let p = mk(ar(a, 2), sc(a, 3));
                let f = MontyForm::from_montgomery(u::<$N>(ar(a, 0)), p);
                let g = MontyForm::from_montgomery(u::<$N>(ar(a, 1)), p);
                val1(ch(f.ct_eq(&g)))
            }
            // args: m1, m2, cfg1, cfg2
            "glue2.params_ct_eq" => {
                let (p, q) = (mk(ar(a, 0), sc(a, 2)), mk(ar(a, 1), sc(a, 3)));
                val1(ch(p.ct_eq(&q)))
            }
            // args: m1, representative 1, m2, representative 2, cfg1, cfg2
            "glue2.monty_ct_eq" => {
                let (p, q) = (mk(ar(a, 0), sc(a, 4)), mk(ar(a, 2), sc(a, 5)));
                let f = MontyForm::from_montgomery(u::<$N>(ar(a, 1)), p);
                let g = MontyForm::from_montgomery(u::<$N>(ar(a, 3)), q);
                val1(ch(f.ct_eq(&g)))
            }
            // args: m, r | x, cfg
            "glue2.zeroize_monty_form" => {
                let mut f = MontyForm::from_montgomery(u::<$N>(ar(a, 1)), mk(ar(a, 0), sc(a, 2)));
                f.zeroize();
                all(&f)
            }
            "glue2.zeroize_monty_form.new" => {
                let mut f = MontyForm::new(&u::<$N>(ar(a, 1)), mk(ar(a, 0), sc(a, 2)));
                Zeroize::zeroize(&mut f);
                all(&f)
            }
            // args: m, cfg
            "glue2.zeroize_monty_params" => {
                let mut p = mk(ar(a, 0), sc(a, 1));
                p.zeroize();
                Some(Out::Val(params_fields(&format!("{:?}", p), $N)))
            }
            // args: m, kind
            "glue2.debug_nonempty.monty" => {
                let inv = mk(ar(a, 0), sc(a, 1)).precompute_inverter();
                debug_ok(&format!("{:?}", inv), "MontyFormInverter")
            }
            _ => None,
        }
    }};
}

// ---------------------------------------------------------------- ConstMontyForm<P, N> at a concrete modulus type
macro_rules! const_arm {
    ($P:ident, $N:literal, $op:expr, $a:expr) => {{
        type F = ConstMontyForm<$P, $N>;
        let a: &Args = $a;
        let op: &str = $op;
        match op {
            // args: m, cfg, ops, x0
            "monty.history.const_as_mut" => {
                single_new(a);
                let f = F::new(&u::<$N>(ar(a, 3)));
                let mut g = F::ZERO;
                *g.as_montgomery_mut() = *f.as_montgomery();
                Some(Out::Val(vec![uv(g.as_montgomery()), uv(&g.retrieve())]))
            }
            "monty.history.const_serde" => {
                single_new(a);
                let f = F::new(&u::<$N>(ar(a, 3)));
                let bytes = bincode::serialize(&f).expect("harness: serialize");
                let g: F = bincode::deserialize(&bytes).expect("harness: a serialized form decodes");
                Some(Out::Val(vec![uv(g.as_montgomery()), uv(&g.retrieve())]))
            }
            // args: r, m
            "uint.is_zero.const_monty_num" => val1(bl(num_traits::Zero::is_zero(&F::from_montgomery(u::<$N>(ar(a, 0)))))),
            "uint.serde_ser.const_monty" => {
                val1(bo(&bincode::serialize(&F::from_montgomery(u::<$N>(ar(a, 0)))).expect("harness: serialize")))
            }
            // args: payload, LIMBS, m
            "glue2.cmf_serde_de" => {
                assert_eq!(sc(a, 1), $N, "harness: limb count of the modulus type");
                match bincode::deserialize::<F>(&by(a, 0)) {
                    Ok(f) => val1(uv(f.as_montgomery())),
                    Err(_) => Some(Out::Err(0)),
                }
            }
            // args: m1 (this type), m2, cfg1, cfg2: from_const_params against a run-time constructor
            "glue2.params_ct_eq.const_dyn" => {
                let p = MontyParams::<$N>::from_const_params::<$P>();
                let q = match sc(a, 3) % 2 {
                    0 => MontyParams::<$N>::new(odd_uint::<$N>(ar(a, 1))),
                    _ => MontyParams::<$N>::new_vartime(odd_uint::<$N>(ar(a, 1))),
                };
                val1(ch(if sc(a, 2) % 2 == 0 { p.ct_eq(&q) } else { q.ct_eq(&p) }))
            }
            "glue2.debug_nonempty.const" => {
                let inv = ConstMontyFormInverter::<$P, $N>::new();
                debug_ok(&format!("{:?}", inv), "ConstMontyFormInverter")
            }
            _ => None,
        }
    }};
}
macro_rules! const_table {
    ($m:expr, $op:expr, $a:expr, [$( ($P:ident, $N:literal) ),*]) => {{
        let m: &[u64] = $m;
        $(
            if m.len() == $N && uv(&<$P as ConstMontyParams<$N>>::MODULUS.get()) == m {
                return const_arm!($P, $N, $op, $a);
            }
        )*
        None
    }};
}
fn const_dispatch(m: &[u64], op: &str, a: &Args) -> Option<Out> {
    const_table!(m, op, a, [
        (M1_one, 1), (M1_three, 1), (M1_max, 1), (M1_rnd, 1),
        (M2_one, 2), (M2_three, 2), (M2_max, 2), (M2_rnd, 2),
        (M3_one, 3), (M3_three, 3), (M3_max, 3), (M3_rnd, 3),
        (M4_one, 4), (M4_three, 4), (M4_max, 4), (M4_rnd, 4)
    ])
}

// ---------------------------------------------------------------- BoxedMontyForm
fn boxed_ops(op: &str, a: &Args) -> Option<Out> {
    // representative, modulus and every other parameter field
    let all = |f: &BoxedMontyForm, n: usize| -> Option<Out> {
        let mut v = vec![bv(&f.to_montgomery())];
        v.extend(params_fields(&format!("{:?}", f.params()), n));
        assert_eq!(bv(f.params().modulus().as_ref()), v[1], "harness: modulus accessor");
        Some(Out::Val(v))
    };
    match op {
        // args: m, cfg, ops, x0
        "monty.boxed_history.params_inherent" | "monty.boxed_history.params_trait" => {
            single_new(a);
            let f = BoxedMontyForm::new(bx(ar(a, 3)), boxed_params(ar(a, 0), sc(a, 1)));
            let q: &BoxedMontyParams = if op.ends_with("_trait") { <BoxedMontyForm as Monty>::params(&f) } else { f.params() };
            let g = BoxedMontyForm::from_montgomery(f.to_montgomery(), q.clone());
            let h = BoxedMontyForm::new(bx(ar(a, 3)), q.clone());
            assert!(g == h, "harness: params() round trip");
            Some(Out::Val(vec![bv(g.as_montgomery()), bv(&h.retrieve())]))
        }
        // args: r, m, cfg
        "boxed.is_zero.monty_form" => {
            val1(ch(BoxedMontyForm::from_montgomery(bx(ar(a, 0)), boxed_params(ar(a, 1), sc(a, 2))).is_zero()))
        }
        "boxed.is_nonzero.monty_form" => {
            val1(ch(BoxedMontyForm::from_montgomery(bx(ar(a, 0)), boxed_params(ar(a, 1), sc(a, 2))).is_nonzero()))
        }
        // args: m, r | x, cfg
        "glue2.zeroize_boxed_form" => {
            let mut f = BoxedMontyForm::from_montgomery(bx(ar(a, 1)), boxed_params(ar(a, 0), sc(a, 2)));
            f.zeroize();
            all(&f, ar(a, 0).len())
        }
        "glue2.zeroize_boxed_form.new" => {
            let mut f = BoxedMontyForm::new(bx(ar(a, 1)), boxed_params(ar(a, 0), sc(a, 2)));
            Zeroize::zeroize(&mut f);
            all(&f, ar(a, 0).len())
        }
        "glue2.form_bits_precision" => {
            let f = BoxedMontyForm::from_montgomery(bx(ar(a, 1)), boxed_params(ar(a, 0), sc(a, 2)));
            val1(vec![f.bits_precision() as u64])
        }
        // args: m, kind
        "glue2.debug_nonempty.boxed" => {
            let inv = boxed_params(ar(a, 0), sc(a, 1)).precompute_inverter();
            debug_ok(&format!("{:?}", inv), "BoxedMontyFormInverter")
        }
        _ => None,
    }
}

pub fn run(op: &str, a: &Args) -> Option<Out> {
    if !OPS.contains(&op) {
        return None;
    }
    match op {
        "glue2.params_ct_eq_lz" | "glue2.params_eq_lz" => return lz_ops(op, a),
        "monty.history.const_as_mut" | "monty.history.const_serde" | "glue2.params_ct_eq.const_dyn" | "glue2.debug_nonempty.const" => {
            return const_dispatch(ar(a, 0), op, a);
        }
        "uint.is_zero.const_monty_num" | "uint.serde_ser.const_monty" => return const_dispatch(ar(a, 1), op, a),
        "glue2.cmf_serde_de" => return const_dispatch(ar(a, 2), op, a),
        "monty.boxed_history.params_inherent" | "monty.boxed_history.params_trait" | "boxed.is_zero.monty_form"
        | "boxed.is_nonzero.monty_form" | "glue2.zeroize_boxed_form" | "glue2.zeroize_boxed_form.new" | "glue2.form_bits_precision"
        | "glue2.debug_nonempty.boxed" => return boxed_ops(op, a),
        _ => {}
    }
    let n = if op == "uint.ct_eq.monty_form" { ar(a, 2).len() } else { ar(a, 0).len() };
    match n {
        1 => dyn_arm!(1, op, a),
        2 => dyn_arm!(2, op, a),
        3 => dyn_arm!(3, op, a),
        4 => dyn_arm!(4, op, a),
        _ => None,
    }
}
