//! C20 adapters: integer square root on Uint<N> and BoxedUint — inherent, wrapping aliases,
//! checked forms, the SquareRoot trait (direct, through a generic function, through a trait object
//! free generic with ?Sized), const-evaluation free forms; ct and _vartime.
use crate::util::*;
use crypto_bigint::{BoxedUint, SquareRoot, Uint};

pub const OPS: &[&str] = &[
    "boxed.checked_sqrt",
    "boxed.checked_sqrt.clone",
    "boxed.checked_sqrt_vartime",
    "boxed.checked_sqrt_vartime.clone",
    "boxed.sqrt",
    "boxed.sqrt.generic",
    "boxed.sqrt.resquare",
    "boxed.sqrt.trait",
    "boxed.sqrt.widened",
    "boxed.sqrt.wrapping",
    "boxed.sqrt_vartime",
    "boxed.sqrt_vartime.generic",
    "boxed.sqrt_vartime.trait",
    "boxed.sqrt_vartime.wrapping",
    "uint.checked_sqrt",
    "uint.checked_sqrt.copy",
    "uint.checked_sqrt_vartime",
    "uint.checked_sqrt_vartime.copy",
    "uint.sqrt",
    "uint.sqrt.generic",
    "uint.sqrt.resquare",
    "uint.sqrt.trait",
    "uint.sqrt.wrapping",
    "uint.sqrt_vartime",
    "uint.sqrt_vartime.generic",
    "uint.sqrt_vartime.trait",
    "uint.sqrt_vartime.wrapping",
];

fn gen_sqrt<T: SquareRoot>(x: &T) -> T {
    x.sqrt()
}
fn gen_sqrt_vartime<T: SquareRoot>(x: &T) -> T {
    x.sqrt_vartime()
}

fn uint_ops<const N: usize>(op: &str, a: &Args) -> Option<Out> {
    let x: Uint<N> = u(ar(a, 0));
    match op {
        "uint.sqrt" => val1(uv(&x.sqrt())),
        "uint.sqrt.wrapping" => val1(uv(&x.wrapping_sqrt())),
        "uint.sqrt.trait" => val1(uv(&<Uint<N> as SquareRoot>::sqrt(&x))),
        "uint.sqrt.generic" => val1(uv(&gen_sqrt(&x))),
        // "callers can check if self is a square by squaring the result": s^2 <= x < (s+1)^2 checked
        // through the crate's own wide multiplication, reported as the root
        "uint.sqrt.resquare" => {
            let s = x.sqrt();
            let (lo, hi) = s.split_mul(&s);
            let s1 = s.wrapping_add(&Uint::<N>::ONE);
            let (lo1, hi1) = s1.split_mul(&s1);
            let le = hi == Uint::<N>::ZERO && lo <= x;
            let gt = hi1 != Uint::<N>::ZERO || lo1 > x || s1 == Uint::<N>::ZERO;
            if le && gt { val1(uv(&s)) } else { Some(Out::Err(1)) }
        }
        "uint.sqrt_vartime" => val1(uv(&x.sqrt_vartime())),
        "uint.sqrt_vartime.wrapping" => val1(uv(&x.wrapping_sqrt_vartime())),
        "uint.sqrt_vartime.trait" => val1(uv(&<Uint<N> as SquareRoot>::sqrt_vartime(&x))),
        "uint.sqrt_vartime.generic" => val1(uv(&gen_sqrt_vartime(&x))),
        "uint.checked_sqrt" => ctopt(x.checked_sqrt(), uv),
        "uint.checked_sqrt.copy" => { let y = x; ctopt(Uint::<N>::checked_sqrt(&y), uv) }
        "uint.checked_sqrt_vartime" => ctopt(x.checked_sqrt_vartime(), uv),
        "uint.checked_sqrt_vartime.copy" => { let y = x; ctopt(Uint::<N>::checked_sqrt_vartime(&y), uv) }
        _ => None,
    }
}

fn boxed_ops(op: &str, a: &Args) -> Option<Out> {
    let x = bx(ar(a, 0));
    match op {
        "boxed.sqrt" => val1(bv(&x.sqrt())),
        "boxed.sqrt.wrapping" => val1(bv(&x.wrapping_sqrt())),
        "boxed.sqrt.trait" => val1(bv(&<BoxedUint as SquareRoot>::sqrt(&x))),
        "boxed.sqrt.generic" => val1(bv(&gen_sqrt(&x))),
        "boxed.sqrt.resquare" => {
            let s = x.sqrt();
            let sq = s.mul(&s); // widening: 2n limbs
            let s1 = s.widen(x.bits_precision() + 64).wrapping_add(&BoxedUint::one());
            let sq1 = s1.mul(&s1);
            let xw = x.widen(sq1.bits_precision());
            let le = sq.widen(sq1.bits_precision()) <= xw;
            let gt = sq1 > xw;
            if le && gt { val1(bv(&s)) } else { Some(Out::Err(1)) }
        }
        // the same value at a larger precision (one extra zero limb): result must be the same number
        "boxed.sqrt.widened" => {
            let w = x.widen(x.bits_precision() + 64);
            let r = w.sqrt();
            let top = r.as_words()[r.as_words().len() - 1];
            if top != 0 { return Some(Out::Err(2)); }
            val1(bv(&r.shorten(x.bits_precision())))
        }
        "boxed.sqrt_vartime" => val1(bv(&x.sqrt_vartime())),
        "boxed.sqrt_vartime.wrapping" => val1(bv(&x.wrapping_sqrt_vartime())),
        "boxed.sqrt_vartime.trait" => val1(bv(&<BoxedUint as SquareRoot>::sqrt_vartime(&x))),
        "boxed.sqrt_vartime.generic" => val1(bv(&gen_sqrt_vartime(&x))),
        "boxed.checked_sqrt" => ctopt(x.checked_sqrt(), bv),
        "boxed.checked_sqrt.clone" => { let y = x.clone(); ctopt(BoxedUint::checked_sqrt(&y), bv) }
        "boxed.checked_sqrt_vartime" => ctopt(x.checked_sqrt_vartime(), bv),
        "boxed.checked_sqrt_vartime.clone" => { let y = x.clone(); ctopt(BoxedUint::checked_sqrt_vartime(&y), bv) }
        _ => None,
    }
}

pub fn run(op: &str, a: &Args) -> Option<Out> {
    if !OPS.contains(&op) {
        return None;
    }
    if op.starts_with("uint.") {
        with_n!(ar(a, 0).len(), [1, 2, 3, 4, 5, 6, 7, 8, 12, 16], uint_ops, op, a)
    } else if op.starts_with("boxed.") {
        boxed_ops(op, a)
    } else {
        None
    }
}
