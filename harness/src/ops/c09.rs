//! C09 adapters: modular exponentiation (pow / pow_bounded_exp, Pow / PowBoundedExp, generic `Monty` bound),
//! multi-exponentiation (MultiExponentiate / MultiExponentiateBoundedExp on arrays and slices) and lincomb_vartime
//! for MontyForm<N>, ConstMontyForm<M, N> (compile-time moduli of the CMODS menu) and BoxedMontyForm.
//! Arguments are plain integers; every adapter builds the Montgomery forms with `new`, calls the route and
//! returns the pair (as_montgomery(), retrieve()).
//!   pow      : m ; x ; e ; k            multiexp : m ; k ; x1 ; e1 ; x2 ; e2 ; ...        lincomb : m ; a1 ; b1 ; a2 ; b2 ; ...
use crate::util::*;
use crypto_bigint::modular::{
    BoxedMontyForm, BoxedMontyParams, ConstMontyForm, ConstMontyParams, MontyForm, MontyParams,
};
use crypto_bigint::{
    impl_modulus, BoxedUint, Monty, MultiExponentiate, MultiExponentiateBoundedExp, Odd, Pow, PowBoundedExp, Uint,
    U1024, U128, U256, U512, U64,
};

pub const OPS: &[&str] = &[
    "pow.fixed.monty_bounded", "pow.fixed.monty_bounded_trait", "pow.fixed.monty_full", "pow.fixed.monty_full_trait",
    "pow.fixed.monty_generic",
    "pow.fixed.const_bounded", "pow.fixed.const_bounded_trait", "pow.fixed.const_full", "pow.fixed.const_full_trait",
    "pow.boxed.bounded", "pow.boxed.bounded_trait", "pow.boxed.full", "pow.boxed.generic",
    "multiexp.array.monty_bounded", "multiexp.array.monty_full", "multiexp.array.const_bounded", "multiexp.array.const_full",
    "multiexp.slice.monty_bounded", "multiexp.slice.monty_full", "multiexp.slice.const_bounded", "multiexp.slice.const_full",
    "lincomb.fixed.monty", "lincomb.fixed.monty_trait", "lincomb.fixed.const", "lincomb.fixed.monty_selected1", "lincomb.fixed.monty_selected0",
    "lincomb.boxed.inherent", "lincomb.boxed.trait",
];

fn odd<const N: usize>(m: Uint<N>) -> Odd<Uint<N>> {
    Option::<Odd<Uint<N>>>::from(Odd::new(m)).expect("harness: even modulus")
}
fn out_m<const N: usize>(r: &MontyForm<N>) -> Option<Out> {
    val2(uv(r.as_montgomery()), uv(&r.retrieve()))
}
fn out_c<M: ConstMontyParams<N>, const N: usize>(r: &ConstMontyForm<M, N>) -> Option<Out> {
    val2(uv(r.as_montgomery()), uv(&r.retrieve()))
}
fn out_b(r: &BoxedMontyForm) -> Option<Out> {
    val2(bv(r.as_montgomery()), bv(&r.retrieve()))
}
fn gen_pow<T: Monty>(x: &T, e: &T::Integer, k: u32) -> T {
    x.pow_bounded_exp(e, k)
}
fn gen_lincomb<T: Monty>(p: &[(&T, &T)]) -> T {
    T::lincomb_vartime(p)
}
fn full_bits(k: u32, limbs: usize) {
    assert_eq!(k as usize, 64 * limbs, "harness: a full-width route needs k = BITS(exponent)");
}

// ---------------------------------------------------------------- MontyForm<N>
fn pow_monty<const N: usize, const R: usize>(route: &str, a: &Args) -> Option<Out> {
    let params = MontyParams::new_vartime(odd(u::<N>(ar(a, 0))));
    let b = MontyForm::new(&u::<N>(ar(a, 1)), params);
    let e: Uint<R> = u(ar(a, 2));
    let k = sc(a, 3) as u32;
    let r = match route {
        "monty_bounded" => b.pow_bounded_exp(&e, k),
        "monty_bounded_trait" => PowBoundedExp::pow_bounded_exp(&b, &e, k),
        "monty_full" => { full_bits(k, R); b.pow(&e) }
        "monty_full_trait" => { full_bits(k, R); Pow::pow(&b, &e) }
        _ => return None,
    };
    out_m(&r)
}
fn pow_monty_generic<const N: usize>(_route: &str, a: &Args) -> Option<Out> {
    let params = MontyParams::new_vartime(odd(u::<N>(ar(a, 0))));
    let b = MontyForm::new(&u::<N>(ar(a, 1)), params);
    let e: Uint<N> = u(ar(a, 2));
    out_m(&gen_pow(&b, &e, sc(a, 3) as u32))
}
fn mexp_monty<const N: usize, const R: usize>(op: &str, a: &Args) -> Option<Out> {
    let params = MontyParams::new_vartime(odd(u::<N>(ar(a, 0))));
    let k = sc(a, 1) as u32;
    let nb = (a.len() - 2) / 2;
    let v: Vec<(MontyForm<N>, Uint<R>)> =
        (0..nb).map(|i| (MontyForm::new(&u::<N>(ar(a, 2 + 2 * i)), params), u::<R>(ar(a, 3 + 2 * i)))).collect();
    macro_rules! arr {
        ($NB:literal, $full:expr) => {{
            let arr: [(MontyForm<N>, Uint<R>); $NB] = core::array::from_fn(|i| v[i]);
            if $full {
                full_bits(k, R);
                <MontyForm<N> as MultiExponentiate<Uint<R>, [(MontyForm<N>, Uint<R>); $NB]>>::multi_exponentiate(&arr)
            } else {
                <MontyForm<N> as MultiExponentiateBoundedExp<Uint<R>, [(MontyForm<N>, Uint<R>); $NB]>>::multi_exponentiate_bounded_exp(&arr, k)
            }
        }};
    }
    let r = match op {
        "multiexp.array.monty_bounded" | "multiexp.array.monty_full" => {
            let full = op.ends_with("_full");
            match nb { 1 => arr!(1, full), 2 => arr!(2, full), 3 => arr!(3, full), _ => return None }
        }
        "multiexp.slice.monty_bounded" =>
            <MontyForm<N> as MultiExponentiateBoundedExp<Uint<R>, [(MontyForm<N>, Uint<R>)]>>::multi_exponentiate_bounded_exp(v.as_slice(), k),
        "multiexp.slice.monty_full" => {
            full_bits(k, R);
            <MontyForm<N> as MultiExponentiate<Uint<R>, [(MontyForm<N>, Uint<R>)]>>::multi_exponentiate(v.as_slice())
        }
        _ => return None,
    };
    out_m(&r)
}
fn lincomb_monty<const N: usize>(op: &str, a: &Args) -> Option<Out> {
    let params = MontyParams::new_vartime(odd(u::<N>(ar(a, 0))));
    // the same parameters obtained by a constant-time selection against the parameters of the modulus 3 (whose
    // leading-zero count is the maximum): the accumulation window of lincomb must be that of the CHOSEN modulus
    let params = match op {
        "lincomb.fixed.monty_selected1" => {
            use subtle::{Choice, ConditionallySelectable};
            let other = MontyParams::new_vartime(odd(Uint::<N>::from(3u64)));
            MontyParams::<N>::conditional_select(&other, &params, Choice::from(1))
        }
        "lincomb.fixed.monty_selected0" => {
            use subtle::{Choice, ConditionallySelectable};
            let other = MontyParams::new_vartime(odd(Uint::<N>::from(3u64)));
            MontyParams::<N>::conditional_select(&params, &other, Choice::from(0))
        }
        _ => params,
    };
    let op = if op.starts_with("lincomb.fixed.monty_selected") { "lincomb.fixed.monty" } else { op };
    let vals: Vec<MontyForm<N>> = (1..a.len()).map(|i| MontyForm::new(&u::<N>(ar(a, i)), params)).collect();
    let prods: Vec<(&MontyForm<N>, &MontyForm<N>)> = (0..vals.len() / 2).map(|i| (&vals[2 * i], &vals[2 * i + 1])).collect();
    let r = match op {
        "lincomb.fixed.monty" => MontyForm::lincomb_vartime(&prods),
        "lincomb.fixed.monty_trait" => gen_lincomb::<MontyForm<N>>(&prods),
        _ => return None,
    };
    out_m(&r)
}

// ---------------------------------------------------------------- ConstMontyForm<M, N>
fn pow_const<M: ConstMontyParams<N>, const N: usize, const R: usize>(route: &str, a: &Args) -> Option<Out> {
    let b = ConstMontyForm::<M, N>::new(&u::<N>(ar(a, 1)));
    let e: Uint<R> = u(ar(a, 2));
    let k = sc(a, 3) as u32;
    let r = match route {
        "const_bounded" => b.pow_bounded_exp(&e, k),
        "const_bounded_trait" => PowBoundedExp::pow_bounded_exp(&b, &e, k),
        "const_full" => { full_bits(k, R); b.pow(&e) }
        "const_full_trait" => { full_bits(k, R); Pow::pow(&b, &e) }
        _ => return None,
    };
    out_c(&r)
}
fn mexp_const<M: ConstMontyParams<N>, const N: usize, const R: usize>(op: &str, a: &Args) -> Option<Out> {
    let k = sc(a, 1) as u32;
    let nb = (a.len() - 2) / 2;
    let v: Vec<(ConstMontyForm<M, N>, Uint<R>)> =
        (0..nb).map(|i| (ConstMontyForm::<M, N>::new(&u::<N>(ar(a, 2 + 2 * i))), u::<R>(ar(a, 3 + 2 * i)))).collect();
    macro_rules! arr {
        ($NB:literal, $full:expr) => {{
            let arr: [(ConstMontyForm<M, N>, Uint<R>); $NB] = core::array::from_fn(|i| v[i]);
            if $full {
                full_bits(k, R);
                <ConstMontyForm<M, N> as MultiExponentiate<Uint<R>, [(ConstMontyForm<M, N>, Uint<R>); $NB]>>::multi_exponentiate(&arr)
            } else {
                <ConstMontyForm<M, N> as MultiExponentiateBoundedExp<Uint<R>, [(ConstMontyForm<M, N>, Uint<R>); $NB]>>::multi_exponentiate_bounded_exp(&arr, k)
            }
        }};
    }
    let r = match op {
        "multiexp.array.const_bounded" | "multiexp.array.const_full" => {
            let full = op.ends_with("_full");
            match nb { 0 => arr!(0, full), 1 => arr!(1, full), 2 => arr!(2, full), 3 => arr!(3, full), _ => return None }
        }
        "multiexp.slice.const_bounded" =>
            <ConstMontyForm<M, N> as MultiExponentiateBoundedExp<Uint<R>, [(ConstMontyForm<M, N>, Uint<R>)]>>::multi_exponentiate_bounded_exp(v.as_slice(), k),
        "multiexp.slice.const_full" => {
            full_bits(k, R);
            <ConstMontyForm<M, N> as MultiExponentiate<Uint<R>, [(ConstMontyForm<M, N>, Uint<R>)]>>::multi_exponentiate(v.as_slice())
        }
        _ => return None,
    };
    out_c(&r)
}
fn lincomb_const<M: ConstMontyParams<N>, const N: usize>(a: &Args) -> Option<Out> {
    let prods: Vec<(ConstMontyForm<M, N>, ConstMontyForm<M, N>)> = (0..(a.len() - 1) / 2)
        .map(|i| (ConstMontyForm::<M, N>::new(&u::<N>(ar(a, 1 + 2 * i))), ConstMontyForm::<M, N>::new(&u::<N>(ar(a, 2 + 2 * i)))))
        .collect();
    out_c(&ConstMontyForm::<M, N>::lincomb_vartime(&prods))
}
fn cm_is<M: ConstMontyParams<N>, const N: usize>(mw: &[u64]) -> bool {
    mw.len() == N && uv(&M::MODULUS.get()) == mw
}

/// The compile-time moduli (name, type, limbs, big-endian hex, exponent widths instantiated for pow; the first one
/// is also used for multi-exponentiation).  tools/vlib/c09.py parses this list: keep one entry per line.
macro_rules! cmods {
    ($( ($name:ident, $ty:ty, $n:literal, $hex:literal, [$r0:literal $(, $r:literal)*]) ),* $(,)?) => {
        $( impl_modulus!($name, $ty, $hex); )*
        fn pow_const_dispatch(route: &str, a: &Args) -> Option<Out> {
            let mw = ar(a, 0);
            let rl = ar(a, 2).len();
            $( if cm_is::<$name, $n>(mw) {
                return match rl { $r0 => pow_const::<$name, $n, $r0>(route, a), $( $r => pow_const::<$name, $n, $r>(route, a), )* _ => None };
            } )*
            None
        }
        fn mexp_const_dispatch(op: &str, a: &Args) -> Option<Out> {
            let mw = ar(a, 0);
            $( if cm_is::<$name, $n>(mw) {
                // with no bases the exponent width is not observable: use the first width
                let rl = if a.len() > 3 { ar(a, 3).len() } else { $r0 };
                return if rl == $r0 { mexp_const::<$name, $n, $r0>(op, a) } else { None };
            } )*
            None
        }
        fn lincomb_const_dispatch(a: &Args) -> Option<Out> {
            let mw = ar(a, 0);
            $( if cm_is::<$name, $n>(mw) { return lincomb_const::<$name, $n>(a); } )*
            None
        }
    };
}
cmods! {
    (C1A, U64, 1, "ffffffffffffffff", [1, 2, 16]),
    (C1B, U64, 1, "8000000000000001", [1, 2, 16]),
    (C1C, U64, 1, "5555555555555555", [1, 2, 16]),
    (C1D, U64, 1, "7fffffffffffffff", [1, 2, 16]),
    (C1E, U64, 1, "3fffffffffffffff", [1, 2, 16]),
    (C1F, U64, 1, "1fffffffffffffff", [1, 2, 16]),
    (C1G, U64, 1, "07ffffffffffffff", [1, 2, 16]),
    (C1H, U64, 1, "0000000000000003", [1, 2, 16]),
    (C1I, U64, 1, "0000000000000001", [1, 2, 16]),
    (C1X, U64, 1, "a9fa98df34b9f2c7", [1, 2, 16]),
    (C1Y, U64, 1, "014c66db65befd75", [1, 2, 16]),
    (C2A, U128, 2, "ffffffffffffffffffffffffffffffff", [2, 1, 4]),
    (C2B, U128, 2, "80000000000000000000000000000001", [2, 1, 4]),
    (C2C, U128, 2, "55555555555555555555555555555555", [2, 1, 4]),
    (C2D, U128, 2, "7fffffffffffffffffffffffffffffff", [2, 1, 4]),
    (C2E, U128, 2, "3fffffffffffffffffffffffffffffff", [2, 1, 4]),
    (C2F, U128, 2, "1fffffffffffffffffffffffffffffff", [2, 1, 4]),
    (C2G, U128, 2, "07ffffffffffffffffffffffffffffff", [2, 1, 4]),
    (C2H, U128, 2, "00000000000000000000000000000003", [2, 1, 4]),
    (C2I, U128, 2, "00000000000000000000000000000001", [2, 1, 4]),
    (C2Z, U128, 2, "0000000000000000ffffffffffffffc5", [2, 1, 4]),
    (C2X, U128, 2, "82750c403c9862ad3683f69ad0a283d5", [2, 1, 4]),
    (C2Y, U128, 2, "01fb92ec4a09e1559fdf94cac351d721", [2, 1, 4]),
    (C4A, U256, 4, "ffffffffffffffffffffffffffffffffffffffffffffffffffffffffffffffff", [4, 1, 8]),
    (C4B, U256, 4, "8000000000000000000000000000000000000000000000000000000000000001", [4, 1, 8]),
    (C4C, U256, 4, "5555555555555555555555555555555555555555555555555555555555555555", [4, 1, 8]),
    (C4D, U256, 4, "7fffffffffffffffffffffffffffffffffffffffffffffffffffffffffffffff", [4, 1, 8]),
    (C4E, U256, 4, "3fffffffffffffffffffffffffffffffffffffffffffffffffffffffffffffff", [4, 1, 8]),
    (C4F, U256, 4, "1fffffffffffffffffffffffffffffffffffffffffffffffffffffffffffffff", [4, 1, 8]),
    (C4G, U256, 4, "07ffffffffffffffffffffffffffffffffffffffffffffffffffffffffffffff", [4, 1, 8]),
    (C4H, U256, 4, "0000000000000000000000000000000000000000000000000000000000000003", [4, 1, 8]),
    (C4P, U256, 4, "ffffffff00000000ffffffffffffffffbce6faada7179e84f3b9cac2fc632551", [4, 1, 8]),
    (C4Q, U256, 4, "7fffffffffffffffffffffffffffffffffffffffffffffffffffffffffffffed", [4, 1, 8]),
    (C4Z, U256, 4, "000000000000000000000000000000000000000000000000ffffffffffffffc5", [4, 1, 8]),
    (C4X, U256, 4, "f6c8d4803cad122c7ceaaf84839ff007683a148dfe18448aac6e80a860099d0d", [4, 1, 8]),
    (C8A, U512, 8, "ffffffffffffffffffffffffffffffffffffffffffffffffffffffffffffffffffffffffffffffffffffffffffffffffffffffffffffffffffffffffffffffff", [8, 2]),
    (C8C, U512, 8, "55555555555555555555555555555555555555555555555555555555555555555555555555555555555555555555555555555555555555555555555555555555", [8, 2]),
    (C8D, U512, 8, "7fffffffffffffffffffffffffffffffffffffffffffffffffffffffffffffffffffffffffffffffffffffffffffffffffffffffffffffffffffffffffffffff", [8, 2]),
    (C8E, U512, 8, "3fffffffffffffffffffffffffffffffffffffffffffffffffffffffffffffffffffffffffffffffffffffffffffffffffffffffffffffffffffffffffffffff", [8, 2]),
    (C8G, U512, 8, "07ffffffffffffffffffffffffffffffffffffffffffffffffffffffffffffffffffffffffffffffffffffffffffffffffffffffffffffffffffffffffffffff", [8, 2]),
    (C8X, U512, 8, "a5a78894c8c2b2b22338c4933bff0d57d8ec893363aa3127bc9c8b439c401fababd22e87106f0df68e66ee06f13f4597ba1c7420cd1821326c9bcb449eb746ef", [8, 2]),
    (C16A, U1024, 16, "ffffffffffffffffffffffffffffffffffffffffffffffffffffffffffffffffffffffffffffffffffffffffffffffffffffffffffffffffffffffffffffffffffffffffffffffffffffffffffffffffffffffffffffffffffffffffffffffffffffffffffffffffffffffffffffffffffffffffffffffffffffffffffffffff", [16, 1]),
    (C16C, U1024, 16, "5555555555555555555555555555555555555555555555555555555555555555555555555555555555555555555555555555555555555555555555555555555555555555555555555555555555555555555555555555555555555555555555555555555555555555555555555555555555555555555555555555555555555555", [16, 1]),
    (C16D, U1024, 16, "7fffffffffffffffffffffffffffffffffffffffffffffffffffffffffffffffffffffffffffffffffffffffffffffffffffffffffffffffffffffffffffffffffffffffffffffffffffffffffffffffffffffffffffffffffffffffffffffffffffffffffffffffffffffffffffffffffffffffffffffffffffffffffffffff", [16, 1]),
    (C16E, U1024, 16, "3fffffffffffffffffffffffffffffffffffffffffffffffffffffffffffffffffffffffffffffffffffffffffffffffffffffffffffffffffffffffffffffffffffffffffffffffffffffffffffffffffffffffffffffffffffffffffffffffffffffffffffffffffffffffffffffffffffffffffffffffffffffffffffffff", [16, 1]),
    (C16X, U1024, 16, "979df82e844f1ddc3bbcd190045bc176625f492843772ae4d87c8b54ca0d72ac7aa194c54aa46e010b0ea4d622f6bb2937e03edaad57066d1cfb081231123703b71c7185445af97cb4653186e7f347740cd071ab21b25571a150213c5dcb9f539ab7d1f5940c7d9600ec9f49f1f4a001112b75470b9225fda77e9465870444dd", [16, 1]),
}

// ---------------------------------------------------------------- BoxedMontyForm
fn bparams(a: &Args) -> BoxedMontyParams {
    let m = Option::<Odd<BoxedUint>>::from(Odd::new(bx(ar(a, 0)))).expect("harness: even modulus");
    BoxedMontyParams::new_vartime(m)
}
fn pow_boxed(route: &str, a: &Args) -> Option<Out> {
    let params = bparams(a);
    let b = BoxedMontyForm::new(bx(ar(a, 1)), params);
    let e = bx(ar(a, 2));
    let k = sc(a, 3) as u32;
    let r = match route {
        "bounded" => b.pow_bounded_exp(&e, k),
        "bounded_trait" => PowBoundedExp::pow_bounded_exp(&b, &e, k),
        "full" => { full_bits(k, ar(a, 2).len()); b.pow(&e) }
        "generic" => gen_pow(&b, &e, k),
        _ => return None,
    };
    out_b(&r)
}
fn lincomb_boxed(op: &str, a: &Args) -> Option<Out> {
    let params = bparams(a);
    let vals: Vec<BoxedMontyForm> = (1..a.len()).map(|i| BoxedMontyForm::new(bx(ar(a, i)), params.clone())).collect();
    let prods: Vec<(&BoxedMontyForm, &BoxedMontyForm)> = (0..vals.len() / 2).map(|i| (&vals[2 * i], &vals[2 * i + 1])).collect();
    let r = match op {
        "lincomb.boxed.inherent" => BoxedMontyForm::lincomb_vartime(&prods),
        "lincomb.boxed.trait" => gen_lincomb::<BoxedMontyForm>(&prods),
        _ => return None,
    };
    out_b(&r)
}

macro_rules! with_nr {
    ($n:expr, $r:expr, $f:ident, $op:expr, $a:expr) => {
        match ($n, $r) {
            (1, 1) => $f::<1, 1>($op, $a), (1, 2) => $f::<1, 2>($op, $a), (1, 4) => $f::<1, 4>($op, $a), (1, 8) => $f::<1, 8>($op, $a), (1, 16) => $f::<1, 16>($op, $a),
            (2, 1) => $f::<2, 1>($op, $a), (2, 2) => $f::<2, 2>($op, $a), (2, 4) => $f::<2, 4>($op, $a), (2, 8) => $f::<2, 8>($op, $a), (2, 16) => $f::<2, 16>($op, $a),
            (4, 1) => $f::<4, 1>($op, $a), (4, 2) => $f::<4, 2>($op, $a), (4, 4) => $f::<4, 4>($op, $a), (4, 8) => $f::<4, 8>($op, $a), (4, 16) => $f::<4, 16>($op, $a),
            (8, 1) => $f::<8, 1>($op, $a), (8, 2) => $f::<8, 2>($op, $a), (8, 4) => $f::<8, 4>($op, $a), (8, 8) => $f::<8, 8>($op, $a), (8, 16) => $f::<8, 16>($op, $a),
            (16, 1) => $f::<16, 1>($op, $a), (16, 2) => $f::<16, 2>($op, $a), (16, 4) => $f::<16, 4>($op, $a), (16, 8) => $f::<16, 8>($op, $a), (16, 16) => $f::<16, 16>($op, $a),
            _ => None,
        }
    };
}

pub fn run(op: &str, a: &Args) -> Option<Out> {
    let n = ar(a, 0).len();
    if let Some(route) = op.strip_prefix("pow.fixed.") {
        if route == "monty_generic" { return with_n!(n, [1, 2, 4, 8, 16], pow_monty_generic, route, a); }
        if route.starts_with("const_") { return pow_const_dispatch(route, a); }
        return with_nr!(n, ar(a, 2).len(), pow_monty, route, a);
    }
    if let Some(route) = op.strip_prefix("pow.boxed.") { return pow_boxed(route, a); }
    if op.starts_with("multiexp.") {
        if op.contains(".const_") { return mexp_const_dispatch(op, a); }
        if a.len() < 4 { return None; }
        return with_nr!(n, ar(a, 3).len(), mexp_monty, op, a);
    }
    match op {
        "lincomb.fixed.monty" | "lincomb.fixed.monty_trait" | "lincomb.fixed.monty_selected1" | "lincomb.fixed.monty_selected0" =>
            with_n!(n, [1, 2, 4, 8, 16], lincomb_monty, op, a),
        "lincomb.fixed.const" => lincomb_const_dispatch(a),
        "lincomb.boxed.inherent" | "lincomb.boxed.trait" => lincomb_boxed(op, a),
        _ => None,
    }
}
