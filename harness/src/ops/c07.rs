//! C07 adapters: modular add/sub/neg/double/mul on Uint<N> and BoxedUint.
use crate::util::*;
use crypto_bigint::{AddMod, BoxedUint, Limb, MulMod, NegMod, NonZero, SubMod, Uint};

pub const OPS: &[&str] = &[
    "uint.add_mod", "uint.add_mod.trait", "uint.double_mod", "uint.add_mod_special", "uint.sub_mod", "uint.sub_mod.trait",
    "uint.sub_mod_special", "uint.neg_mod", "uint.neg_mod.trait", "uint.neg_mod_special", "uint.mul_mod_special",
    "uint.mul_mod_vartime", "uint.mul_mod_trait", "uint.mul_mod",
    "boxed.add_mod", "boxed.add_mod.assign", "boxed.add_mod.trait", "boxed.double_mod", "boxed.sub_mod", "boxed.sub_mod.trait",
    "boxed.sub_mod_special", "boxed.neg_mod", "boxed.neg_mod.trait", "boxed.neg_mod_special", "boxed.mul_mod_special",
    "boxed.mul_mod", "boxed.mul_mod.trait",
];

fn uint_ops<const N: usize>(op: &str, a: &Args) -> Option<Out> {
    let x: Uint<N> = u(ar(a, 0));
    match op {
        "uint.double_mod" => return val1(uv(&x.double_mod(&u::<N>(ar(a, 1))))),
        "uint.neg_mod" => return val1(uv(&x.neg_mod(&u::<N>(ar(a, 1))))),
        "uint.neg_mod.trait" => return val1(uv(&NegMod::neg_mod(&x, &u::<N>(ar(a, 1))))),
        "uint.neg_mod_special" => return val1(uv(&x.neg_mod_special(Limb(sc(a, 1))))),
        _ => {}
    }
    let y: Uint<N> = u(ar(a, 1));
    match op {
        "uint.add_mod_special" => return val1(uv(&x.add_mod_special(&y, Limb(sc(a, 2))))),
        "uint.sub_mod_special" => return val1(uv(&x.sub_mod_special(&y, Limb(sc(a, 2))))),
        "uint.mul_mod_special" => return val1(uv(&x.mul_mod_special(&y, Limb(sc(a, 2))))),
        _ => {}
    }
    let p: Uint<N> = u(ar(a, 2));
    match op {
        "uint.add_mod" => val1(uv(&x.add_mod(&y, &p))),
        "uint.add_mod.trait" => val1(uv(&AddMod::add_mod(&x, &y, &p))),
        "uint.sub_mod" => val1(uv(&x.sub_mod(&y, &p))),
        "uint.sub_mod.trait" => val1(uv(&SubMod::sub_mod(&x, &y, &p))),
        "uint.mul_mod_vartime" => {
            let nz: NonZero<Uint<N>> = Option::from(NonZero::new(p)).expect("harness: zero modulus");
            val1(uv(&x.mul_mod_vartime(&y, &nz)))
        }
        "uint.mul_mod_trait" => val1(uv(&MulMod::mul_mod(&x, &y, &p))),
        _ => None,
    }
}

fn uint_mul_mod(a: &Args) -> Option<Out> {
    macro_rules! mm {
        ($N:literal, $W:literal) => {{
            let x: Uint<$N> = u(ar(a, 0)); let y: Uint<$N> = u(ar(a, 1)); let p: Uint<$N> = u(ar(a, 2));
            let nz: NonZero<Uint<$N>> = Option::from(NonZero::new(p)).expect("harness: zero modulus");
            val1(uv(&x.mul_mod::<$W>(&y, &nz)))
        }};
    }
    match ar(a, 0).len() {
        1 => mm!(1, 2), 2 => mm!(2, 4), 3 => mm!(3, 6), 4 => mm!(4, 8), 6 => mm!(6, 12), 8 => mm!(8, 16), 16 => mm!(16, 32),
        _ => None,
    }
}

fn boxed_ops(op: &str, a: &Args) -> Option<Out> {
    let x = bx(ar(a, 0));
    match op {
        "boxed.double_mod" => return val1(bv(&x.double_mod(&bx(ar(a, 1))))),
        "boxed.neg_mod" => return val1(bv(&x.neg_mod(&bx(ar(a, 1))))),
        "boxed.neg_mod.trait" => return val1(bv(&NegMod::neg_mod(&x, &bx(ar(a, 1))))),
        "boxed.neg_mod_special" => return val1(bv(&x.neg_mod_special(Limb(sc(a, 1))))),
        _ => {}
    }
    let y = bx(ar(a, 1));
    match op {
        "boxed.sub_mod_special" => return val1(bv(&x.sub_mod_special(&y, Limb(sc(a, 2))))),
        "boxed.mul_mod_special" => return val1(bv(&x.mul_mod_special(&y, Limb(sc(a, 2))))),
        _ => {}
    }
    let p = bx(ar(a, 2));
    match op {
        "boxed.add_mod" => val1(bv(&x.add_mod(&y, &p))),
        "boxed.add_mod.assign" => { let mut r = x; r.add_mod_assign(&y, &p); val1(bv(&r)) }
        "boxed.add_mod.trait" => val1(bv(&AddMod::add_mod(&x, &y, &p))),
        "boxed.sub_mod" => val1(bv(&x.sub_mod(&y, &p))),
        "boxed.sub_mod.trait" => val1(bv(&SubMod::sub_mod(&x, &y, &p))),
        "boxed.mul_mod" => val1(bv(&x.mul_mod(&y, &p))),
        "boxed.mul_mod.trait" => val1(bv(&MulMod::mul_mod(&x, &y, &p))),
        _ => None,
    }
}

pub fn run(op: &str, a: &Args) -> Option<Out> {
    if op.starts_with("boxed.") { return boxed_ops(op, a); }
    if op == "uint.mul_mod" { return uint_mul_mod(a); }
    with_n!(ar(a, 0).len(), [1, 2, 3, 4, 6, 8, 12, 16], uint_ops, op, a)
}
