//! C02 adapters: unsigned division and remainder on Uint<N> and BoxedUint.
use crate::util::*;
use crypto_bigint::{
    BoxedUint, CheckedDiv, DivRemLimb, DivVartime, Limb, NonZero, Reciprocal, RemLimb, RemMixed, Uint, Wrapping,
};

pub const OPS: &[&str] = &[
    "recip.new",
    "uint.div_rem_limb", "uint.div_rem_limb.recip", "uint.div_rem_limb.trait", "uint.div_rem_limb.trait_recip",
    "uint.rem_limb", "uint.rem_limb.recip", "uint.rem_limb.trait", "uint.rem_limb.trait_recip",
    "uint.rem_limb.op_vv", "uint.rem_limb.op_vr", "uint.rem_limb.op_rv", "uint.rem_limb.op_rr",
    "uint.rem_limb.assign", "uint.rem_limb.assign_ref",
    "uint.rem_limb.w_vv", "uint.rem_limb.w_vr", "uint.rem_limb.w_rv", "uint.rem_limb.w_rr", "uint.rem_limb.w_assign", "uint.rem_limb.w_assign_ref",
    "uint.div_limb.op_vv", "uint.div_limb.op_vr", "uint.div_limb.op_rv", "uint.div_limb.op_rr",
    "uint.div_limb.assign", "uint.div_limb.assign_ref",
    "uint.div_limb.w_vv", "uint.div_limb.w_vr", "uint.div_limb.w_rv", "uint.div_limb.w_rr", "uint.div_limb.w_assign", "uint.div_limb.w_assign_ref",
    "uint.div_rem", "uint.rem", "uint.rem.op_vv", "uint.rem.op_vr", "uint.rem.op_rv", "uint.rem.op_rr",
    "uint.rem.assign", "uint.rem.assign_ref", "uint.rem.w_vv", "uint.rem.w_vr", "uint.rem.w_rv", "uint.rem.w_rr",
    "uint.rem.w_assign", "uint.rem.w_assign_ref",
    "uint.div", "uint.div.op_vv", "uint.div.op_vr", "uint.div.op_rv", "uint.div.op_rr",
    "uint.div.assign", "uint.div.assign_ref", "uint.div.w_vv", "uint.div.w_vr", "uint.div.w_rv", "uint.div.w_rr",
    "uint.div.w_assign", "uint.div.w_assign_ref",
    "uint.div_plain.v", "uint.div_plain.r", "uint.rem_plain.v", "uint.rem_plain.r",
    "uint.checked_div", "uint.checked_div.trait", "uint.checked_div.wrapper", "uint.checked_rem",
    "uint.div_rem_vartime", "uint.rem_vartime", "uint.wrapping_div_vartime", "uint.div_vartime.trait",
    "uint.wrapping_rem_vartime", "uint.rem_wide_vartime", "uint.rem2k_vartime", "uint.rem_mixed",
    "boxed.div_rem_limb", "boxed.div_rem_limb.recip", "boxed.div_rem_limb.trait", "boxed.rem_limb", "boxed.rem_limb.recip", "boxed.rem_limb.trait",
    "boxed.div_rem", "boxed.rem", "boxed.rem.op_vv", "boxed.rem.op_vr", "boxed.rem.op_rv", "boxed.rem.op_rr",
    "boxed.rem.assign", "boxed.rem.assign_ref",
    "boxed.div", "boxed.div.op_vv", "boxed.div.op_vr", "boxed.div.op_rv", "boxed.div.op_rr", "boxed.div.assign", "boxed.div.assign_ref",
    "boxed.div.w_vv", "boxed.div.w_vr", "boxed.div.w_rv", "boxed.div.w_rr", "boxed.div.w_assign", "boxed.div.w_assign_ref",
    "boxed.checked_div", "boxed.checked_div.trait",
    "boxed.div_rem_vartime", "boxed.rem_vartime", "boxed.wrapping_div_vartime", "boxed.div_vartime.trait", "boxed.rem_mixed",
];

fn nzl(d: u64) -> NonZero<Limb> {
    Option::from(NonZero::new(Limb(d))).expect("harness: zero limb divisor")
}
fn nzu<const N: usize>(v: &[u64]) -> NonZero<Uint<N>> {
    Option::from(NonZero::new(u::<N>(v))).expect("harness: zero divisor")
}
fn nzb(v: &[u64]) -> NonZero<BoxedUint> {
    Option::from(NonZero::new(bx(v))).expect("harness: zero divisor")
}

fn uint_limb<const N: usize>(op: &str, a: &Args) -> Option<Out> {
    let x: Uint<N> = u(ar(a, 0));
    let d = nzl(sc(a, 1));
    let rc = Reciprocal::new(d);
    match op {
        "uint.div_rem_limb" => { let (q, r) = x.div_rem_limb(d); val2(uv(&q), lv(r)) }
        "uint.div_rem_limb.recip" => { let (q, r) = x.div_rem_limb_with_reciprocal(&rc); val2(uv(&q), lv(r)) }
        "uint.div_rem_limb.trait" => { let (q, r) = DivRemLimb::div_rem_limb(&x, d); val2(uv(&q), lv(r)) }
        "uint.div_rem_limb.trait_recip" => { let (q, r) = DivRemLimb::div_rem_limb_with_reciprocal(&x, &rc); val2(uv(&q), lv(r)) }
        "uint.rem_limb" => val1(lv(x.rem_limb(d))),
        "uint.rem_limb.recip" => val1(lv(x.rem_limb_with_reciprocal(&rc))),
        "uint.rem_limb.trait" => val1(lv(RemLimb::rem_limb(&x, d))),
        "uint.rem_limb.trait_recip" => val1(lv(RemLimb::rem_limb_with_reciprocal(&x, &rc))),
        "uint.rem_limb.op_vv" => val1(lv(x % d)),
        "uint.rem_limb.op_vr" => val1(lv(x % &d)),
        "uint.rem_limb.op_rv" => val1(lv(&x % d)),
        "uint.rem_limb.op_rr" => val1(lv(&x % &d)),
        "uint.rem_limb.assign" => { let mut r = x; r %= d; val1(vec![r.to_words()[0]]) }
        "uint.rem_limb.assign_ref" => { let mut r = x; r %= &d; val1(vec![r.to_words()[0]]) }
        "uint.rem_limb.w_vv" => val1(lv((Wrapping(x) % d).0)),
        "uint.rem_limb.w_vr" => val1(lv((Wrapping(x) % &d).0)),
        "uint.rem_limb.w_rv" => val1(lv((&Wrapping(x) % d).0)),
        "uint.rem_limb.w_rr" => val1(lv((&Wrapping(x) % &d).0)),
        "uint.rem_limb.w_assign" => { let mut r = Wrapping(x); r %= d; val1(vec![r.0.to_words()[0]]) }
        "uint.rem_limb.w_assign_ref" => { let mut r = Wrapping(x); r %= &d; val1(vec![r.0.to_words()[0]]) }
        "uint.div_limb.op_vv" => val1(uv(&(x / d))),
        "uint.div_limb.op_vr" => val1(uv(&(x / &d))),
        "uint.div_limb.op_rv" => val1(uv(&(&x / d))),
        "uint.div_limb.op_rr" => val1(uv(&(&x / &d))),
        "uint.div_limb.assign" => { let mut r = x; r /= d; val1(uv(&r)) }
        "uint.div_limb.assign_ref" => { let mut r = x; r /= &d; val1(uv(&r)) }
        "uint.div_limb.w_vv" => val1(uv(&(Wrapping(x) / d).0)),
        "uint.div_limb.w_vr" => val1(uv(&(Wrapping(x) / &d).0)),
        "uint.div_limb.w_rv" => val1(uv(&(&Wrapping(x) / d).0)),
        "uint.div_limb.w_rr" => val1(uv(&(&Wrapping(x) / &d).0)),
        "uint.div_limb.w_assign" => { let mut r = Wrapping(x); r /= d; val1(uv(&r.0)) }
        "uint.div_limb.w_assign_ref" => { let mut r = Wrapping(x); r /= &d; val1(uv(&r.0)) }
        _ => None,
    }
}

fn uint_same<const N: usize>(op: &str, a: &Args) -> Option<Out> {
    let x: Uint<N> = u(ar(a, 0));
    match op {
        "uint.checked_div" => return ctopt(x.checked_div(&u::<N>(ar(a, 1))), uv),
        "uint.checked_div.trait" => return ctopt(CheckedDiv::checked_div(&x, &u::<N>(ar(a, 1))), uv),
        "uint.checked_div.wrapper" => {
            return ctopt((crypto_bigint::Checked::new(x) / crypto_bigint::Checked::new(u::<N>(ar(a, 1)))).0, uv);
        }
        "uint.checked_rem" => return ctopt(x.checked_rem(&u::<N>(ar(a, 1))), uv),
        "uint.wrapping_rem_vartime" => return val1(uv(&x.wrapping_rem_vartime(&u::<N>(ar(a, 1))))),
        "uint.div_plain.v" => return val1(uv(&(x / u::<N>(ar(a, 1))))),
        "uint.div_plain.r" => return val1(uv(&(&x / u::<N>(ar(a, 1))))),
        "uint.rem_plain.v" => return val1(uv(&(x % u::<N>(ar(a, 1))))),
        "uint.rem_plain.r" => return val1(uv(&(&x % u::<N>(ar(a, 1))))),
        "uint.rem2k_vartime" => return val1(uv(&x.rem2k_vartime(sc(a, 1) as u32))),
        "uint.rem_wide_vartime" => {
            let hi: Uint<N> = u(ar(a, 1));
            return val1(uv(&Uint::rem_wide_vartime((x, hi), &nzu::<N>(ar(a, 2)))));
        }
        _ => {}
    }
    let y = nzu::<N>(ar(a, 1));
    match op {
        "uint.div_rem" => { let (q, r) = x.div_rem(&y); val2(uv(&q), uv(&r)) }
        "uint.rem" => val1(uv(&x.rem(&y))),
        "uint.rem_vartime" => val1(uv(&x.rem_vartime(&y))),
        "uint.rem.op_vv" => val1(uv(&(x % y))),
        "uint.rem.op_vr" => val1(uv(&(x % &y))),
        "uint.rem.op_rv" => val1(uv(&(&x % y))),
        "uint.rem.op_rr" => val1(uv(&(&x % &y))),
        "uint.rem.assign" => { let mut r = x; r %= y; val1(uv(&r)) }
        "uint.rem.assign_ref" => { let mut r = x; r %= &y; val1(uv(&r)) }
        "uint.rem.w_vv" => val1(uv(&(Wrapping(x) % y).0)),
        "uint.rem.w_vr" => val1(uv(&(Wrapping(x) % &y).0)),
        "uint.rem.w_rv" => val1(uv(&(&Wrapping(x) % y).0)),
        "uint.rem.w_rr" => val1(uv(&(&Wrapping(x) % &y).0)),
        "uint.rem.w_assign" => { let mut r = Wrapping(x); r %= y; val1(uv(&r.0)) }
        "uint.rem.w_assign_ref" => { let mut r = Wrapping(x); r %= &y; val1(uv(&r.0)) }
        "uint.div" => val1(uv(&x.wrapping_div(&y))),
        "uint.div.op_vv" => val1(uv(&(x / y))),
        "uint.div.op_vr" => val1(uv(&(x / &y))),
        "uint.div.op_rv" => val1(uv(&(&x / y))),
        "uint.div.op_rr" => val1(uv(&(&x / &y))),
        "uint.div.assign" => { let mut r = x; r /= y; val1(uv(&r)) }
        "uint.div.assign_ref" => { let mut r = x; r /= &y; val1(uv(&r)) }
        "uint.div.w_vv" => val1(uv(&(Wrapping(x) / y).0)),
        "uint.div.w_vr" => val1(uv(&(Wrapping(x) / &y).0)),
        "uint.div.w_rv" => val1(uv(&(&Wrapping(x) / y).0)),
        "uint.div.w_rr" => val1(uv(&(&Wrapping(x) / &y).0)),
        "uint.div.w_assign" => { let mut r = Wrapping(x); r /= y; val1(uv(&r.0)) }
        "uint.div.w_assign_ref" => { let mut r = Wrapping(x); r /= &y; val1(uv(&r.0)) }
        "uint.div_vartime.trait" => val1(uv(&DivVartime::div_vartime(&x, &y))),
        _ => None,
    }
}

fn uint_mixed<const N: usize, const M: usize>(op: &str, a: &Args) -> Option<Out> {
    let x: Uint<N> = u(ar(a, 0));
    let y = nzu::<M>(ar(a, 1));
    match op {
        "uint.div_rem_vartime" => { let (q, r) = x.div_rem_vartime(&y); val2(uv(&q), uv(&r)) }
        "uint.wrapping_div_vartime" => val1(uv(&x.wrapping_div_vartime(&y))),
        _ => None,
    }
}

macro_rules! mixed {
    ($n:expr, $m:expr, $op:expr, $a:expr, [$(($N:literal, $M:literal)),*]) => {
        match ($n, $m) {
            $( ($N, $M) => uint_mixed::<$N, $M>($op, $a), )*
            _ => None,
        }
    };
}

fn rem_mixed_named(a: &Args) -> Option<Out> {
    let (n, m) = (ar(a, 0).len(), ar(a, 1).len());
    macro_rules! rm {
        ($N:literal, $M:literal) => {
            val1(uv(&RemMixed::<Uint<$M>>::rem_mixed(&u::<$N>(ar(a, 0)), &nzu::<$M>(ar(a, 1)))))
        };
    }
    match (n, m) {
        (3, 1) => rm!(3, 1),
        (3, 2) => rm!(3, 2),
        (4, 1) => rm!(4, 1),
        (4, 3) => rm!(4, 3),
        (6, 2) => rm!(6, 2),
        (6, 4) => rm!(6, 4),
        (8, 3) => rm!(8, 3),
        (8, 5) => rm!(8, 5),
        (16, 7) => rm!(16, 7),
        (16, 9) => rm!(16, 9),
        _ => None,
    }
}

fn boxed_ops(op: &str, a: &Args) -> Option<Out> {
    let x = bx(ar(a, 0));
    if op.starts_with("boxed.div_rem_limb") || op.starts_with("boxed.rem_limb") {
        let d = nzl(sc(a, 1));
        let rc = Reciprocal::new(d);
        return match op {
            "boxed.div_rem_limb" => { let (q, r) = x.div_rem_limb(d); val2(bv(&q), lv(r)) }
            "boxed.div_rem_limb.recip" => { let (q, r) = x.div_rem_limb_with_reciprocal(&rc); val2(bv(&q), lv(r)) }
            "boxed.div_rem_limb.trait" => { let (q, r) = DivRemLimb::div_rem_limb(&x, d); val2(bv(&q), lv(r)) }
            "boxed.rem_limb" => val1(lv(x.rem_limb(d))),
            "boxed.rem_limb.recip" => val1(lv(x.rem_limb_with_reciprocal(&rc))),
            "boxed.rem_limb.trait" => val1(lv(RemLimb::rem_limb(&x, d))),
            _ => None,
        };
    }
    if op == "boxed.checked_div" { return ctopt(x.checked_div(&bx(ar(a, 1))), bv); }
    if op == "boxed.checked_div.trait" { return ctopt(CheckedDiv::checked_div(&x, &bx(ar(a, 1))), bv); }
    let y = nzb(ar(a, 1));
    match op {
        "boxed.div_rem" => { let (q, r) = x.div_rem(&y); val2(bv(&q), bv(&r)) }
        "boxed.rem" => val1(bv(&x.rem(&y))),
        "boxed.rem.op_vv" => val1(bv(&(x % y))),
        "boxed.rem.op_vr" => val1(bv(&(x % &y))),
        "boxed.rem.op_rv" => val1(bv(&(&x % y))),
        "boxed.rem.op_rr" => val1(bv(&(&x % &y))),
        "boxed.rem.assign" => { let mut r = x; r %= y; val1(bv(&r)) }
        "boxed.rem.assign_ref" => { let mut r = x; r %= &y; val1(bv(&r)) }
        "boxed.div" => val1(bv(&x.wrapping_div(&y))),
        "boxed.div.op_vv" => val1(bv(&(x / y))),
        "boxed.div.op_vr" => val1(bv(&(x / &y))),
        "boxed.div.op_rv" => val1(bv(&(&x / y))),
        "boxed.div.op_rr" => val1(bv(&(&x / &y))),
        "boxed.div.assign" => { let mut r = x; r /= y; val1(bv(&r)) }
        "boxed.div.assign_ref" => { let mut r = x; r /= &y; val1(bv(&r)) }
        "boxed.div.w_vv" => val1(bv(&(Wrapping(x) / y).0)),
        "boxed.div.w_vr" => val1(bv(&(Wrapping(x) / &y).0)),
        "boxed.div.w_rv" => val1(bv(&(&Wrapping(x) / y).0)),
        "boxed.div.w_rr" => val1(bv(&(&Wrapping(x) / &y).0)),
        "boxed.div.w_assign" => { let mut r = Wrapping(x); r /= y; val1(bv(&r.0)) }
        "boxed.div.w_assign_ref" => { let mut r = Wrapping(x); r /= &y; val1(bv(&r.0)) }
        "boxed.div_rem_vartime" => { let (q, r) = x.div_rem_vartime(&y); val2(bv(&q), bv(&r)) }
        "boxed.rem_vartime" => val1(bv(&x.rem_vartime(&y))),
        "boxed.wrapping_div_vartime" => val1(bv(&x.wrapping_div_vartime(&y))),
        "boxed.div_vartime.trait" => val1(bv(&DivVartime::div_vartime(&x, &y))),
        "boxed.rem_mixed" => val1(bv(&RemMixed::rem_mixed(&x, &y))),
        _ => None,
    }
}

/// Reciprocal has no accessors for its fields; its derived Debug output exposes them.
fn recip_fields(d: u64) -> Option<Out> {
    let s = format!("{:?}", Reciprocal::new(nzl(d)));
    let num = |key: &str| -> u64 {
        let i = s.find(key).expect("Reciprocal Debug format") + key.len();
        let rest: String = s[i..].chars().skip_while(|c| !c.is_ascii_digit()).take_while(|c| c.is_ascii_digit()).collect();
        rest.parse().expect("Reciprocal Debug number")
    };
    Some(Out::Val(vec![vec![num("divisor_normalized")], vec![num("shift")], vec![num(" reciprocal")]]))
}

pub fn run(op: &str, a: &Args) -> Option<Out> {
    if op == "recip.new" {
        return recip_fields(sc(a, 0));
    }
    if op.starts_with("boxed.") {
        return boxed_ops(op, a);
    }
    let n = ar(a, 0).len();
    if op.starts_with("uint.div_rem_limb") || op.starts_with("uint.rem_limb") || op.starts_with("uint.div_limb") {
        return with_n!(n, [1, 2, 3, 4, 6, 8, 16, 32, 64], uint_limb, op, a);
    }
    if op == "uint.rem_mixed" {
        return rem_mixed_named(a);
    }
    if op == "uint.div_rem_vartime" || op == "uint.wrapping_div_vartime" {
        let m = ar(a, 1).len();
        return mixed!(n, m, op, a, [(1, 1), (1, 2), (2, 1), (2, 2), (2, 3), (3, 2), (3, 3), (4, 1), (4, 2), (4, 3), (4, 4), (4, 6),
            (6, 3), (6, 4), (6, 6), (8, 2), (8, 4), (8, 8), (8, 16), (16, 3), (16, 8), (16, 16), (32, 4), (32, 16), (32, 32),
            (64, 8), (64, 32), (64, 64)]);
    }
    with_n!(n, [1, 2, 3, 4, 6, 8, 16, 32, 64], uint_same, op, a)
}
