//! C19 adapters: Random / RandomMod / RandomBits on Limb, Uint<N>, Int<N>, Wrapping, BoxedUint, NonZero, Odd,
//! ConstMontyForm, driven by a replaying RNG that records its consumption.
//!
//! arg 0 = the 64-bit words the RNG will output. The RNG is block-less with `next_u64` as primitive:
//! `next_u32` = `next_u64 as u32`, `fill_bytes` = `rand_core::impls::fill_bytes_via_next`. When the words
//! run out the fallible RNG returns `Exhausted` (outcome `err 9`); the infallible forms are driven through
//! `TryRngCore::unwrap_mut`, which panics on that error.
//! Every successful outcome is `value ; words consumed ; bytes requested`.
use crate::util::*;
use core::fmt;
use crypto_bigint::modular::{ConstMontyForm, ConstMontyParams};
use crypto_bigint::rand_core::{RngCore, TryRngCore};
use crypto_bigint::{
    BoxedUint, Int, Limb, NonZero, Odd, Random, RandomBits, RandomBitsError, RandomMod, Uint, Wrapping, U128, U192,
    U256, U64, impl_modulus,
};

pub const OPS: &[&str] = &[
    "boxed.random_bits",
    "boxed.random_bits.errfields",
    "boxed.random_bits.infallible_rng",
    "boxed.random_bits.panicking",
    "boxed.random_bits.prec",
    "boxed.random_bits.try",
    "boxed.random_mod",
    "boxed.random_mod.dyn",
    "boxed.random_mod.infallible",
    "boxed.random_mod.try_infallible",
    "limb.random",
    "limb.random.dyn",
    "limb.random.infallible",
    "limb.random.wrapping",
    "limb.random.wrapping_infallible",
    "limb.random_mod",
    "limb.random_mod.dyn",
    "limb.random_mod.infallible",
    "nonzero_monty.random",
    "nonzero_monty.random.infallible",
    "nonzero_uint.random",
    "nonzero_uint.random.infallible",
    "nonzero_uint.random.int",
    "nonzero_uint.random.int_infallible",
    "nonzero_uint.random.limb",
    "nonzero_uint.random.limb_infallible",
    "nonzero_uint.random.wrapping",
    "odd_boxed.random",
    "odd_boxed.random.infallible_rng",
    "odd_uint.random",
    "odd_uint.random.infallible",
    "uint.random",
    "uint.random.dyn",
    "uint.random.infallible",
    "uint.random.int",
    "uint.random.int_infallible",
    "uint.random.try_infallible",
    "uint.random.unwrap_err",
    "uint.random.wrapping",
    "uint.random.wrapping_infallible",
    "uint.random_bits",
    "uint.random_bits.errfields",
    "uint.random_bits.infallible_rng",
    "uint.random_bits.int",
    "uint.random_bits.int_errfields",
    "uint.random_bits.int_panicking",
    "uint.random_bits.int_prec",
    "uint.random_bits.int_try",
    "uint.random_bits.panicking",
    "uint.random_bits.prec",
    "uint.random_bits.try",
    "uint.random_mod",
    "uint.random_mod.const_monty",
    "uint.random_mod.const_monty_infallible",
    "uint.random_mod.dyn",
    "uint.random_mod.infallible",
    "uint.random_mod.try_infallible",
];

// ---------------------------------------------------------------- the replaying RNG
#[derive(Debug)]
pub struct Exhausted;
impl fmt::Display for Exhausted {
    fn fmt(&self, f: &mut fmt::Formatter<'_>) -> fmt::Result {
        write!(f, "replay stream exhausted")
    }
}
impl core::error::Error for Exhausted {}

pub struct Replay {
    words: Vec<u64>,
    pos: usize,
    bytes: u64,
}

impl Replay {
    fn new(words: &[u64]) -> Self {
        Replay { words: words.to_vec(), pos: 0, bytes: 0 }
    }
    fn take(&mut self) -> Result<u64, Exhausted> {
        match self.words.get(self.pos) {
            Some(w) => {
                self.pos += 1;
                Ok(*w)
            }
            None => Err(Exhausted),
        }
    }
    fn used(&self) -> (Vec<u64>, Vec<u64>) {
        (vec![self.pos as u64], vec![self.bytes])
    }
}

impl TryRngCore for Replay {
    type Error = Exhausted;
    fn try_next_u32(&mut self) -> Result<u32, Exhausted> {
        let w = self.take()?;
        self.bytes += 4;
        Ok(w as u32)
    }
    fn try_next_u64(&mut self) -> Result<u64, Exhausted> {
        let w = self.take()?;
        self.bytes += 8;
        Ok(w)
    }
    // rand_core::impls::fill_bytes_via_next
    fn try_fill_bytes(&mut self, dst: &mut [u8]) -> Result<(), Exhausted> {
        let total = dst.len() as u64;
        let mut left = dst;
        while left.len() >= 8 {
            let (l, r) = { left }.split_at_mut(8);
            left = r;
            let chunk: [u8; 8] = self.take()?.to_le_bytes();
            l.copy_from_slice(&chunk);
        }
        let n = left.len();
        if n > 4 {
            let chunk: [u8; 8] = self.take()?.to_le_bytes();
            left.copy_from_slice(&chunk[..n]);
        } else if n > 0 {
            let chunk: [u8; 4] = (self.take()? as u32).to_le_bytes();
            left.copy_from_slice(&chunk[..n]);
        }
        self.bytes += total;
        Ok(())
    }
}

const ERR_RNG: u32 = 9;

fn done(v: Vec<u64>, r: &Replay) -> Option<Out> {
    let (w, b) = r.used();
    Some(Out::Val(vec![v, w, b]))
}
fn res<T>(x: Result<T, Exhausted>, r: &Replay, f: impl Fn(&T) -> Vec<u64>) -> Option<Out> {
    match x {
        Ok(v) => done(f(&v), r),
        Err(Exhausted) => Some(Out::Err(ERR_RNG)),
    }
}
fn bits_res<T>(x: Result<T, RandomBitsError<Exhausted>>, r: &Replay, fields: bool, f: impl Fn(&T) -> Vec<u64>) -> Option<Out> {
    match x {
        Ok(v) => {
            if fields {
                val1(vec![0, 0, 0])
            } else {
                done(f(&v), r)
            }
        }
        Err(e) => {
            let (c, f1, f2) = match e {
                RandomBitsError::RandCore(Exhausted) => (ERR_RNG, 0, 0),
                RandomBitsError::BitsPrecisionMismatch { bits_precision, integer_bits } => (1, bits_precision, integer_bits),
                RandomBitsError::BitLengthTooLarge { bit_length, bits_precision } => (2, bit_length, bits_precision),
            };
            if fields {
                val1(vec![c as u64, f1 as u64, f2 as u64])
            } else {
                Some(Out::Err(c))
            }
        }
    }
}
fn u32arg(a: &Args, i: usize) -> Option<u32> {
    u32::try_from(sc(a, i)).ok()
}
/// the generator states in the last scalar whether the RNG error is returned (1) or panics (0)
fn flag_ok(a: &Args, i: usize, fallible: bool) -> bool {
    sc(a, i) == fallible as u64
}

// ---------------------------------------------------------------- Limb
fn limb_ops(op: &str, a: &Args) -> Option<Out> {
    let mut r = Replay::new(ar(a, 0));
    match op {
        "limb.random" | "limb.random.infallible" | "limb.random.dyn" | "limb.random.wrapping" | "limb.random.wrapping_infallible" => {
            let fallible = matches!(op, "limb.random" | "limb.random.wrapping");
            if !flag_ok(a, 1, fallible) {
                return None;
            }
            match op {
                "limb.random" => { let x = Limb::try_random(&mut r); res(x, &r, |v| lv(*v)) }
                "limb.random.infallible" => { let x = Limb::random(&mut r.unwrap_mut()); done(lv(x), &r) }
                "limb.random.dyn" => {
                    let x = { let mut u = r.unwrap_mut(); let d: &mut dyn RngCore = &mut u; Limb::random(d) };
                    done(lv(x), &r)
                }
                "limb.random.wrapping" => { let x = Wrapping::<Limb>::try_random(&mut r); res(x, &r, |v| lv(v.0)) }
                _ => { let x = Wrapping::<Limb>::random(&mut r.unwrap_mut()); done(lv(x.0), &r) }
            }
        }
        "limb.random_mod" | "limb.random_mod.infallible" | "limb.random_mod.dyn" => {
            let m = Option::<NonZero<Limb>>::from(NonZero::new(Limb(sc(a, 1))))?;
            if !flag_ok(a, 2, op == "limb.random_mod") {
                return None;
            }
            match op {
                "limb.random_mod" => { let x = Limb::try_random_mod(&mut r, &m); res(x, &r, |v| lv(*v)) }
                "limb.random_mod.infallible" => { let x = Limb::random_mod(&mut r.unwrap_mut(), &m); done(lv(x), &r) }
                _ => {
                    let x = { let mut u = r.unwrap_mut(); let d: &mut dyn RngCore = &mut u; Limb::random_mod(d, &m) };
                    done(lv(x), &r)
                }
            }
        }
        _ => None,
    }
}

// ---------------------------------------------------------------- Uint<N> / Int<N> / Wrapping / NonZero / Odd
fn uint_ops<const N: usize>(op: &str, a: &Args) -> Option<Out> {
    let mut r = Replay::new(ar(a, 0));
    if let Some(route) = op.strip_prefix("uint.random_bits") {
        let bl = u32arg(a, 2)?;
        let prec = u32arg(a, 3)?;
        let mode = sc(a, 4);
        let bits = Uint::<N>::BITS;
        return match route {
            "" if mode == 0 => { let x = Uint::<N>::try_random_bits_with_precision(&mut r, bl, prec); bits_res(x, &r, false, uv) }
            ".errfields" if mode == 2 => { let x = Uint::<N>::try_random_bits_with_precision(&mut r, bl, prec); bits_res(x, &r, true, uv) }
            ".try" if mode == 0 && prec == bits => { let x = Uint::<N>::try_random_bits(&mut r, bl); bits_res(x, &r, false, uv) }
            ".panicking" if mode == 1 && prec == bits => { let x = Uint::<N>::random_bits(&mut r, bl); done(uv(&x), &r) }
            ".prec" if mode == 1 => { let x = Uint::<N>::random_bits_with_precision(&mut r, bl, prec); done(uv(&x), &r) }
            ".infallible_rng" if mode == 1 => {
                // RNG errors panic inside the RNG wrapper, the other errors in `expect`
                let x = Uint::<N>::random_bits_with_precision(&mut r.unwrap_mut(), bl, prec);
                done(uv(&x), &r)
            }
            ".int" if mode == 0 => { let x = Int::<N>::try_random_bits_with_precision(&mut r, bl, prec); bits_res(x, &r, false, iv) }
            ".int_errfields" if mode == 2 => { let x = Int::<N>::try_random_bits_with_precision(&mut r, bl, prec); bits_res(x, &r, true, iv) }
            ".int_try" if mode == 0 && prec == bits => { let x = Int::<N>::try_random_bits(&mut r, bl); bits_res(x, &r, false, iv) }
            ".int_panicking" if mode == 1 && prec == bits => { let x = Int::<N>::random_bits(&mut r, bl); done(iv(&x), &r) }
            ".int_prec" if mode == 1 => { let x = Int::<N>::random_bits_with_precision(&mut r, bl, prec); done(iv(&x), &r) }
            _ => None,
        };
    }
    if let Some(route) = op.strip_prefix("uint.random_mod") {
        let m: Uint<N> = u(ar(a, 1));
        let m = Option::<NonZero<Uint<N>>>::from(NonZero::new(m))?;
        if !flag_ok(a, 2, route.is_empty()) {
            return None;
        }
        return match route {
            "" => { let x = Uint::<N>::try_random_mod(&mut r, &m); res(x, &r, uv) }
            ".infallible" => { let x = Uint::<N>::random_mod(&mut r.unwrap_mut(), &m); done(uv(&x), &r) }
            ".try_infallible" => {
                let x = { let mut w = r.unwrap_mut(); Uint::<N>::try_random_mod(&mut w, &m) };
                match x { Ok(v) => done(uv(&v), &r) }
            }
            ".dyn" => {
                let x = { let mut w = r.unwrap_mut(); let d: &mut dyn RngCore = &mut w; Uint::<N>::random_mod(d, &m) };
                done(uv(&x), &r)
            }
            _ => None,
        };
    }
    if sc(a, 1) != N as u64 {
        return None;
    }
    let fl = sc(a, 2);
    match (op, fl) {
        ("uint.random", 1) => { let x = Uint::<N>::try_random(&mut r); res(x, &r, uv) }
        ("uint.random.infallible", 0) => { let x = Uint::<N>::random(&mut r.unwrap_mut()); done(uv(&x), &r) }
        ("uint.random.try_infallible", 0) => {
            let x = { let mut w = r.unwrap_mut(); Uint::<N>::try_random(&mut w) };
            match x { Ok(v) => done(uv(&v), &r) }
        }
        ("uint.random.dyn", 0) => {
            let x = { let mut w = r.unwrap_mut(); let d: &mut dyn RngCore = &mut w; Uint::<N>::random(d) };
            done(uv(&x), &r)
        }
        ("uint.random.unwrap_err", 0) => {
            let mut w = r.unwrap_err();
            let x = Uint::<N>::random(&mut w);
            done(uv(&x), &w.0)
        }
        ("uint.random.int", 1) => { let x = Int::<N>::try_random(&mut r); res(x, &r, iv) }
        ("uint.random.int_infallible", 0) => { let x = Int::<N>::random(&mut r.unwrap_mut()); done(iv(&x), &r) }
        ("uint.random.wrapping", 1) => { let x = Wrapping::<Uint<N>>::try_random(&mut r); res(x, &r, |v| uv(&v.0)) }
        ("uint.random.wrapping_infallible", 0) => { let x = Wrapping::<Uint<N>>::random(&mut r.unwrap_mut()); done(uv(&x.0), &r) }
        ("nonzero_uint.random", 1) => { let x = NonZero::<Uint<N>>::try_random(&mut r); res(x, &r, |v| uv(v.as_ref())) }
        ("nonzero_uint.random.infallible", 0) => { let x = NonZero::<Uint<N>>::random(&mut r.unwrap_mut()); done(uv(x.as_ref()), &r) }
        ("nonzero_uint.random.int", 1) => { let x = NonZero::<Int<N>>::try_random(&mut r); res(x, &r, |v| iv(v.as_ref())) }
        ("nonzero_uint.random.int_infallible", 0) => { let x = NonZero::<Int<N>>::random(&mut r.unwrap_mut()); done(iv(x.as_ref()), &r) }
        ("nonzero_uint.random.wrapping", 1) => {
            let x = NonZero::<Wrapping<Uint<N>>>::try_random(&mut r);
            res(x, &r, |v| uv(&v.as_ref().0))
        }
        ("nonzero_uint.random.limb", 1) if N == 1 => { let x = NonZero::<Limb>::try_random(&mut r); res(x, &r, |v| lv(*v.as_ref())) }
        ("nonzero_uint.random.limb_infallible", 0) if N == 1 => { let x = NonZero::<Limb>::random(&mut r.unwrap_mut()); done(lv(*x.as_ref()), &r) }
        ("odd_uint.random", 1) => { let x = Odd::<Uint<N>>::try_random(&mut r); res(x, &r, |v| uv(v.as_ref())) }
        ("odd_uint.random.infallible", 0) => { let x = Odd::<Uint<N>>::random(&mut r.unwrap_mut()); done(uv(x.as_ref()), &r) }
        _ => None,
    }
}

// ---------------------------------------------------------------- BoxedUint
fn boxed_ops(op: &str, a: &Args) -> Option<Out> {
    let mut r = Replay::new(ar(a, 0));
    if let Some(route) = op.strip_prefix("boxed.random_bits") {
        let bl = u32arg(a, 1)?;
        let prec = u32arg(a, 2)?;
        let mode = sc(a, 3);
        return match route {
            "" if mode == 0 => { let x = BoxedUint::try_random_bits_with_precision(&mut r, bl, prec); bits_res(x, &r, false, bv) }
            ".errfields" if mode == 2 => { let x = BoxedUint::try_random_bits_with_precision(&mut r, bl, prec); bits_res(x, &r, true, bv) }
            ".try" if mode == 0 && prec == bl => { let x = BoxedUint::try_random_bits(&mut r, bl); bits_res(x, &r, false, bv) }
            ".panicking" if mode == 1 && prec == bl => { let x = BoxedUint::random_bits(&mut r, bl); done(bv(&x), &r) }
            ".prec" if mode == 1 => { let x = BoxedUint::random_bits_with_precision(&mut r, bl, prec); done(bv(&x), &r) }
            ".infallible_rng" if mode == 1 => {
                let x = BoxedUint::random_bits_with_precision(&mut r.unwrap_mut(), bl, prec);
                done(bv(&x), &r)
            }
            _ => None,
        };
    }
    if let Some(route) = op.strip_prefix("boxed.random_mod") {
        let m = Option::<NonZero<BoxedUint>>::from(NonZero::new(bx(ar(a, 1))))?;
        if !flag_ok(a, 2, route.is_empty()) {
            return None;
        }
        return match route {
            "" => { let x = BoxedUint::try_random_mod(&mut r, &m); res(x, &r, bv) }
            ".infallible" => { let x = BoxedUint::random_mod(&mut r.unwrap_mut(), &m); done(bv(&x), &r) }
            ".try_infallible" => {
                let x = { let mut w = r.unwrap_mut(); BoxedUint::try_random_mod(&mut w, &m) };
                match x { Ok(v) => done(bv(&v), &r) }
            }
            ".dyn" => {
                let x = { let mut w = r.unwrap_mut(); let d: &mut dyn RngCore = &mut w; BoxedUint::random_mod(d, &m) };
                done(bv(&x), &r)
            }
            _ => None,
        };
    }
    let bl = u32arg(a, 1)?;
    match op {
        "odd_boxed.random" => { let x = Odd::<BoxedUint>::random(&mut r, bl); done(bv(x.as_ref()), &r) }
        "odd_boxed.random.infallible_rng" => { let x = Odd::<BoxedUint>::random(&mut r.unwrap_mut(), bl); done(bv(x.as_ref()), &r) }
        _ => None,
    }
}

// ---------------------------------------------------------------- ConstMontyForm (compile-time moduli; keep in sync with tools/vlib/c19.py)
impl_modulus!(M64A, U64, "0000000000000003");
impl_modulus!(M64B, U64, "ffffffffffffffff");
impl_modulus!(M64C, U64, "8000000000000001");
impl_modulus!(M64D, U64, "0000000100000001");
impl_modulus!(M64E, U64, "7fffffffffffffff");
impl_modulus!(M128A, U128, "00000000000000010000000000000001");
impl_modulus!(M128B, U128, "ffffffffffffffff0000000000000001");
impl_modulus!(M128C, U128, "0000000000000000ffffffffffffffff");
impl_modulus!(M128D, U128, "0000000000000001ffffffffffffffff");
impl_modulus!(M192A, U192, "0000000000000001ffffffffffffffffffffffffffffffff");
impl_modulus!(M192B, U192, "000000000000000000000000000000080000000000000001");
impl_modulus!(M256A, U256, "ffffffff00000001000000000000000000000000ffffffffffffffffffffffff");
impl_modulus!(M256B, U256, "0000000000010001000000000000000000000000000000000000000000000001");
impl_modulus!(M256C, U256, "8000000000000000000000000000000000000000000000000000000000000001");

fn cm<M: ConstMontyParams<N>, const N: usize>(op: &str, a: &Args) -> Option<Out> {
    if uv(M::MODULUS.as_ref()) != ar(a, 1) {
        return None;
    }
    let mut r = Replay::new(ar(a, 0));
    let fl = sc(a, 2);
    match (op, fl) {
        ("uint.random_mod.const_monty", 1) => { let x = ConstMontyForm::<M, N>::try_random(&mut r); res(x, &r, |v| uv(&v.retrieve())) }
        ("uint.random_mod.const_monty_infallible", 0) => { let x = ConstMontyForm::<M, N>::random(&mut r.unwrap_mut()); done(uv(&x.retrieve()), &r) }
        ("nonzero_monty.random", 1) => { let x = NonZero::<ConstMontyForm<M, N>>::try_random(&mut r); res(x, &r, |v| uv(&v.as_ref().retrieve())) }
        ("nonzero_monty.random.infallible", 0) => {
            let x = NonZero::<ConstMontyForm<M, N>>::random(&mut r.unwrap_mut());
            done(uv(&x.as_ref().retrieve()), &r)
        }
        _ => None,
    }
}

fn monty_ops(op: &str, a: &Args) -> Option<Out> {
    macro_rules! try_mod {
        ($($m:ident, $n:literal);*) => {
            $( if ar(a, 1).len() == $n { if let Some(o) = cm::<$m, $n>(op, a) { return Some(o); } } )*
        };
    }
    try_mod!(M64A, 1; M64B, 1; M64C, 1; M64D, 1; M64E, 1; M128A, 2; M128B, 2; M128C, 2; M128D, 2; M192A, 3; M192B, 3;
             M256A, 4; M256B, 4; M256C, 4);
    None
}

pub fn run(op: &str, a: &Args) -> Option<Out> {
    if !OPS.contains(&op) {
        return None;
    }
    if op.starts_with("limb.") {
        limb_ops(op, a)
    } else if op.contains("const_monty") || op.starts_with("nonzero_monty.") {
        monty_ops(op, a)
    } else if op.starts_with("uint.random_mod") {
        with_n!(ar(a, 1).len(), [1, 2, 3, 4, 5, 6, 7, 8, 12, 16, 32], uint_ops, op, a)
    } else if op.starts_with("uint.") || op.starts_with("nonzero_uint.") || op.starts_with("odd_uint.") {
        with_n!(sc(a, 1) as usize, [1, 2, 3, 4, 5, 6, 7, 8, 12, 16, 32], uint_ops, op, a)
    } else if op.starts_with("boxed.") || op.starts_with("odd_boxed.") {
        boxed_ops(op, a)
    } else {
        None
    }
}
