//! C15 (continued) adapters: the GLUE routes of the crate that no other property's adapter executes -- operator
//! impls by value / by reference / assigning on `Checked<T>` and `Wrapping<T>`, the conversions of `Checked<T>`,
//! the formatting / serde / AsRef fronts of `Wrapping<T>`, `NonZero<T>`, `Odd<T>`, `Int<N>`, the trait fronts of
//! traits.rs (`Integer::{one, one_like, from_limb_like, nlimbs}`, `Zero::{set_zero, zero_like}`, `BitOps::bytes_precision`,
//! num_traits `Zero` / `One`, the blanket `Pow` / `MultiExponentiate`), `Default` impls, `Reciprocal::default` /
//! `conditional_select`, `ConstCtOption<(Uint, Uint)>::expect`, `ConstChoice == ConstChoice`, the `Display` texts of
//! `DecodeError` / `RandomBitsError`.
//! A rust op is `<model op>.<route>`; the generator (tools/vlib/c15r.py) names the model op explicitly. Most routes map
//! to a model op of the owning property (`uint.wrapping_mul`, `uint.fmt`, `w.nz.same` ...); constants and fronts that
//! have no model op elsewhere map to the keys of coq/Model/Glue.v (`glue.*`).
use crate::util::*;
use core::fmt;
use core::ops::{AddAssign, MulAssign, SubAssign};
use crypto_bigint::{
    BitOps, BoxedUint, Checked, CheckedAdd, CheckedMul, CheckedSub, DecodeError, Int, Integer, Limb, MultiExponentiate,
    MultiExponentiateBoundedExp, NonZero, Odd, Pow, PowBoundedExp, RandomBitsError, Reciprocal, Uint, Word, Wrapping,
    WrappingMul, Zero,
};
use subtle::{Choice, ConditionallySelectable, ConstantTimeEq, CtOption};

pub const OPS: &[&str] = &[
    // ---- Limb operators by reference, Wrapping<Limb> / Checked<Limb>
    "limb.mul.rv", "limb.mul.rr",
    "limb.wrapping_mul.wrapper_vr", "limb.wrapping_mul.wrapper_rv",
    "limb.wrapping_add.wrapper_assign_ref", "limb.wrapping_sub.wrapper_assign_val",
    "limb.wrapping_mul.wrapper_assign_val", "limb.wrapping_mul.wrapper_assign_ref",
    "limb.checked_add.wrapper_assign_val", "limb.checked_add.wrapper_assign_ref", "limb.checked_add.wrapper_into_ctopt",
    "limb.checked_add.wrapper_into_option", "limb.checked_add.wrapper_from_ctopt",
    "limb.checked_sub.wrapper_assign_val", "limb.checked_sub.wrapper_assign_ref", "limb.checked_sub.wrapper_into_ctopt",
    "limb.checked_sub.wrapper_into_option", "limb.checked_sub.wrapper_from_ctopt",
    "limb.checked_mul.wrapper_assign_val", "limb.checked_mul.wrapper_assign_ref", "limb.checked_mul.wrapper_into_ctopt",
    "limb.checked_mul.wrapper_into_option", "limb.checked_mul.wrapper_from_ctopt",
    "limb.is_one.wrapping_num", "limb.fmt.wrapping", "limb.fmt.nz",
    "limb.to_le_bytes.serde_wrapping", "limb.to_le_bytes.serde_nz", "limb.from_le_bytes.serde_wrapping",
    // ---- Wrapping<Uint<N>> / Checked<Uint<N>>
    "uint.wrapping_mul.wrapper_vr", "uint.wrapping_mul.wrapper_rv", "uint.wrapping_mul.wrapper_assign_ref",
    "uint.checked_add.wrapper_assign_val", "uint.checked_add.wrapper_assign_ref", "uint.checked_add.wrapper_into_ctopt",
    "uint.checked_add.wrapper_into_option", "uint.checked_add.wrapper_from_ctopt",
    "uint.checked_sub.wrapper_assign_val", "uint.checked_sub.wrapper_assign_ref", "uint.checked_sub.wrapper_into_ctopt",
    "uint.checked_sub.wrapper_into_option", "uint.checked_sub.wrapper_from_ctopt",
    "uint.checked_mul.wrapper_assign_val", "uint.checked_mul.wrapper_assign_ref", "uint.checked_mul.wrapper_into_ctopt",
    "uint.checked_mul.wrapper_into_option", "uint.checked_mul.wrapper_from_ctopt",
    "uint.checked_expr.assign",
    "uint.is_one.wrapping_num", "uint.fmt.wrapping", "uint.fmt.nz", "uint.fmt.odd",
    "int.fmt.wrapping", "int.fmt.nz", "int.fmt.odd",
    "uint.serde_ser.wrapping", "uint.serde_ser.nz", "uint.serde_ser.odd", "uint.serde_de.wrapping",
    // ---- Int<N> views
    "uint.words_id.int_as_limbs_mut", "uint.words_id.int_as_ref_words", "uint.words_id.int_as_mut_words",
    "uint.words_id.int_as_ref_limbs", "uint.words_id.int_as_mut_limbs",
    // ---- Wrapping<BoxedUint>
    "boxed.wrapping_mul.wrapper_vr", "boxed.wrapping_mul.wrapper_rv", "boxed.wrapping_mul.wrapper_assign_ref",
    "boxed.is_one.wrapping_num", "boxed.fmt.wrapping", "boxed.fmt.nz", "boxed.fmt.odd",
    // ---- NonZero<T> / Odd<T>: AsRef
    "w.nz.same.as_ref_trait", "w.odd.same.as_ref_trait", "w.odd.same.as_ref_limbs",
    // ---- double-width shifts through ConstCtOption<(Uint, Uint)>::expect
    "glue.shl_wide_expect", "glue.shr_wide_expect",
    // ---- constants / fronts modelled in coq/Model/Glue.v
    "glue.zero.limb_num", "glue.zero.uint_num", "glue.zero.int_num", "glue.zero.boxed_num", "glue.zero.boxed_zero_trait",
    "glue.zero.boxed_default", "glue.zero.wrapping_num_limb", "glue.zero.wrapping_num_uint", "glue.zero.wrapping_num_boxed",
    "glue.zero.checked_default_limb", "glue.zero.checked_default_uint", "glue.zero.checked_default_boxed",
    "glue.one.limb_num", "glue.one.uint_num", "glue.one.uint_integer", "glue.one.boxed_num", "glue.one.boxed_integer",
    "glue.one.wrapping_num_limb", "glue.one.wrapping_num_uint", "glue.one.wrapping_num_boxed",
    "glue.max_boxed",
    "glue.nlimbs.uint", "glue.nlimbs.boxed", "glue.bytes_precision.uint", "glue.bytes_precision.boxed",
    "glue.from_limb_like.uint", "glue.from_limb_like.boxed", "glue.one_like.uint", "glue.one_like.boxed",
    "glue.zero_like.limb", "glue.zero_like.uint", "glue.zero_like.int", "glue.zero_like.boxed", "glue.zero_like.wrapping_uint",
    "glue.zero_like.set_zero_limb", "glue.zero_like.set_zero_uint", "glue.zero_like.set_zero_int", "glue.zero_like.set_zero_boxed",
    "glue.zero_like.set_zero_wrapping_uint",
    "glue.zero_like_wrapping_boxed", "glue.zero_like_wrapping_boxed.set_zero",
    "glue.recip_default", "glue.recip_default.trait", "glue.recip_select",
    "glue.cc_eq", "glue.cc_eq.ne",
    "glue.decode_error_text", "glue.random_bits_error_text",
    "glue.fmt_octal.wrapping", "glue.fmt_octal.nz",
    "glue.checked_ser", "glue.checked_ser_limb", "glue.checked_de", "glue.checked_de_limb",
    "glue.pow_front", "glue.multi_exp_front",
];

// ---------------------------------------------------------------- helpers
fn by(a: &Args, i: usize) -> Vec<u8> {
    ar(a, i)
        .iter()
        .map(|&w| {
            assert!(w < 256, "harness: byte argument out of range");
            w as u8
        })
        .collect()
}
fn bo(b: &[u8]) -> Vec<u64> {
    b.iter().map(|&x| x as u64).collect()
}
fn lvs(l: &[Limb]) -> Vec<u64> {
    l.iter().map(|x| x.0).collect()
}
fn opt<T>(o: Option<T>, f: impl Fn(&T) -> Vec<u64>) -> Option<Out> {
    match o {
        Some(x) => val1(f(&x)),
        None => Some(Out::None),
    }
}
/// the formatting traits a wrapper forwards (kinds as in ops/c16.rs; Debug is derived on the wrappers, not forwarded)
fn fmt6<T: fmt::Display + fmt::LowerHex + fmt::UpperHex + fmt::Binary>(x: &T, kind: u64) -> Option<Out> {
    let s = match kind {
        0 => format!("{}", x),
        1 => format!("{:x}", x),
        2 => format!("{:X}", x),
        3 => format!("{:b}", x),
        4 => format!("{:#x}", x),
        5 => format!("{:#X}", x),
        6 => format!("{:#b}", x),
        _ => return None,
    };
    val1(bo(s.as_bytes()))
}
fn oct<T: fmt::Octal>(x: &T, alt: u64) -> Option<Out> {
    let s = if alt == 0 { format!("{:o}", x) } else { format!("{:#o}", x) };
    val1(bo(s.as_bytes()))
}
/// Expand `$body` once per listed limb count with `$N` bound to a constant (for the impls of the concrete aliases).
macro_rules! for_n {
    ($n:expr, [$($k:literal),*], $N:ident, $body:block) => {
        match $n {
            $( $k => { const $N: usize = $k; $body } )*
            _ => None,
        }
    };
}

/// A word that implements `fmt::Octal` and the crate's `Zero`: no integer of the crate implements Octal, so the Octal
/// impls of the wrappers can only be reached with a foreign type (`Wrapping<T>` has a public field; `NonZero::new`
/// asks for `T: Zero`). `Odd::new` asks for `T: Integer`: no such type implements Octal, `Octal for Odd<T>` is unreachable.
#[derive(Clone, Copy, Debug)]
struct Oct(u64);
impl ConstantTimeEq for Oct {
    fn ct_eq(&self, other: &Self) -> Choice {
        self.0.ct_eq(&other.0)
    }
}
impl Zero for Oct {
    fn zero() -> Self {
        Oct(0)
    }
}
impl fmt::Octal for Oct {
    fn fmt(&self, f: &mut fmt::Formatter<'_>) -> fmt::Result {
        fmt::Octal::fmt(&self.0, f)
    }
}

/// Records what the blanket `Pow` / `MultiExponentiate` impls of traits.rs hand to the bounded forms.
#[derive(Clone, Debug)]
struct Rec(Vec<Vec<u64>>);
impl<const N: usize> PowBoundedExp<Uint<N>> for Rec {
    fn pow_bounded_exp(&self, exponent: &Uint<N>, exponent_bits: u32) -> Self {
        let mut v = self.0.clone();
        v.push(vec![exponent_bits as u64]);
        v.push(uv(exponent));
        Rec(v)
    }
}
impl<const N: usize> MultiExponentiateBoundedExp<Uint<N>, [(Rec, Uint<N>)]> for Rec {
    fn multi_exponentiate_bounded_exp(bases_and_exponents: &[(Rec, Uint<N>)], exponent_bits: u32) -> Self {
        let mut v = vec![vec![exponent_bits as u64], vec![bases_and_exponents.len() as u64]];
        for (b, e) in bases_and_exponents {
            v.extend(b.0.iter().cloned());
            v.push(uv(e));
        }
        Rec(v)
    }
}

// ---------------------------------------------------------------- Checked<T>: every conversion and assigning form
fn checked_route<T>(op: u8, route: &str, x: T, y: T, out: impl Fn(&T) -> Vec<u64>) -> Option<Out>
where
    T: Copy + CheckedAdd + CheckedSub + CheckedMul + ConditionallySelectable + Default,
    Checked<T>: AddAssign
        + for<'a> AddAssign<&'a Checked<T>>
        + SubAssign
        + for<'a> SubAssign<&'a Checked<T>>
        + MulAssign
        + for<'a> MulAssign<&'a Checked<T>>,
{
    let (cx, cy) = (Checked::new(x), Checked::new(y));
    let bin = |p: Checked<T>, q: Checked<T>| match op {
        0 => p + q,
        1 => p - q,
        _ => p * q,
    };
    match route {
        "wrapper_assign_val" => {
            let mut w = cx;
            match op {
                0 => w += cy,
                1 => w -= cy,
                _ => w *= cy,
            }
            ctopt(w.0, out)
        }
        "wrapper_assign_ref" => {
            let mut w = cx;
            match op {
                0 => w += &cy,
                1 => w -= &cy,
                _ => w *= &cy,
            }
            ctopt(w.0, out)
        }
        "wrapper_into_ctopt" => {
            let c: CtOption<T> = bin(cx, cy).into();
            ctopt(c, out)
        }
        "wrapper_into_option" => {
            let o: Option<T> = bin(cx, cy).into();
            opt(o, out)
        }
        "wrapper_from_ctopt" => {
            let raw = match op {
                0 => x.checked_add(&y),
                1 => x.checked_sub(&y),
                _ => x.checked_mul(&y),
            };
            let c: Checked<T> = Checked::from(raw);
            ctopt(c.0, out)
        }
        _ => None,
    }
}
fn checked_op_of(op: &str) -> Option<(u8, &str)> {
    let rest = op.strip_prefix("limb.").or_else(|| op.strip_prefix("uint."))?;
    let (k, r) = if let Some(r) = rest.strip_prefix("checked_add.") {
        (0, r)
    } else if let Some(r) = rest.strip_prefix("checked_sub.") {
        (1, r)
    } else if let Some(r) = rest.strip_prefix("checked_mul.") {
        (2, r)
    } else {
        return None;
    };
    Some((k, r))
}

// ---------------------------------------------------------------- Limb
fn limb_ops(op: &str, a: &Args) -> Option<Out> {
    let x = Limb(sc(a, 0));
    let y = Limb(sc(a, 1));
    if let Some((k, route)) = checked_op_of(op) {
        return checked_route(k, route, x, y, |r| lv(*r));
    }
    match op {
        "limb.mul.rv" => val1(lv(&x * y)),
        "limb.mul.rr" => val1(lv(&x * &y)),
        "limb.wrapping_mul.wrapper_vr" => val1(lv((Wrapping(x) * &Wrapping(y)).0)),
        "limb.wrapping_mul.wrapper_rv" => val1(lv((&Wrapping(x) * Wrapping(y)).0)),
        "limb.wrapping_add.wrapper_assign_ref" => { let mut w = Wrapping(x); w += &Wrapping(y); val1(lv(w.0)) }
        "limb.wrapping_sub.wrapper_assign_val" => { let mut w = Wrapping(x); w -= Wrapping(y); val1(lv(w.0)) }
        "limb.wrapping_mul.wrapper_assign_val" => { let mut w = Wrapping(x); w *= Wrapping(y); val1(lv(w.0)) }
        "limb.wrapping_mul.wrapper_assign_ref" => { let mut w = Wrapping(x); w *= &Wrapping(y); val1(lv(w.0)) }
        "limb.is_one.wrapping_num" => val1(bl(num_traits::One::is_one(&Wrapping(x)))),
        "limb.fmt.wrapping" => fmt6(&Wrapping(x), sc(a, 1)),
        "limb.fmt.nz" => fmt6(&NonZero::new(x).unwrap(), sc(a, 1)),
        "limb.to_le_bytes.serde_wrapping" => val1(bo(&bincode::serialize(&Wrapping(x)).unwrap())),
        "limb.to_le_bytes.serde_nz" => val1(bo(&bincode::serialize(&NonZero::new(x).unwrap()).unwrap())),
        "limb.from_le_bytes.serde_wrapping" => match bincode::deserialize::<Wrapping<Limb>>(&by(a, 0)) {
            Ok(w) => val1(lv(w.0)),
            Err(_) => Some(Out::Err(0)),
        },
        _ => None,
    }
}

// ---------------------------------------------------------------- Uint<N> / Int<N>
fn chk_apply<const N: usize>(w: &mut Checked<Uint<N>>, op: u64, v: Checked<Uint<N>>, by_ref: bool) {
    match (op, by_ref) {
        (0, false) => *w += v,
        (0, true) => *w += &v,
        (_, false) => *w -= v,
        (_, true) => *w -= &v,
    }
}
fn uint_ops<const N: usize>(op: &str, a: &Args) -> Option<Out> {
    let x: Uint<N> = u(ar(a, 0));
    // one value (+ scalars)
    match op {
        "uint.is_one.wrapping_num" => return val1(bl(num_traits::One::is_one(&Wrapping(x)))),
        "uint.fmt.wrapping" => return fmt6(&Wrapping(x), sc(a, 1)),
        "uint.fmt.nz" => return fmt6(&NonZero::new(x).unwrap(), sc(a, 1)),
        "uint.fmt.odd" => return fmt6(&Odd::new(x).unwrap(), sc(a, 1)),
        "int.fmt.wrapping" => return fmt6(&Wrapping(x.as_int()), sc(a, 1)),
        "int.fmt.nz" => return fmt6(&NonZero::new(x.as_int()).unwrap(), sc(a, 1)),
        "int.fmt.odd" => return fmt6(&x.as_int().to_odd().unwrap(), sc(a, 1)),
        "uint.words_id.int_as_limbs_mut" => {
            let mut y = Int::<N>::ZERO;
            y.as_limbs_mut().copy_from_slice(x.as_limbs());
            return val1(iv(&y));
        }
        "uint.words_id.int_as_ref_words" => {
            let y = x.as_int();
            let r: &[Word; N] = AsRef::<[Word; N]>::as_ref(&y);
            return val1(r.to_vec());
        }
        "uint.words_id.int_as_mut_words" => {
            let mut y = Int::<N>::ZERO;
            AsMut::<[Word; N]>::as_mut(&mut y).copy_from_slice(x.as_words());
            return val1(iv(&y));
        }
        "uint.words_id.int_as_ref_limbs" => {
            let y = x.as_int();
            let r: &[Limb] = AsRef::<[Limb]>::as_ref(&y);
            return val1(lvs(r));
        }
        "uint.words_id.int_as_mut_limbs" => {
            let mut y = Int::<N>::ZERO;
            AsMut::<[Limb]>::as_mut(&mut y).copy_from_slice(x.as_limbs());
            return val1(iv(&y));
        }
        "glue.nlimbs.uint" => return val1(vec![Integer::nlimbs(&x) as u64]),
        "glue.bytes_precision.uint" => return val1(vec![BitOps::bytes_precision(&x) as u64]),
        "glue.one_like.uint" => return val1(uv(&Integer::one_like(&x))),
        "glue.zero_like.uint" => return val1(uv(&Zero::zero_like(&x))),
        "glue.zero_like.int" => return val1(iv(&Zero::zero_like(&x.as_int()))),
        "glue.zero_like.wrapping_uint" => return val1(uv(&Zero::zero_like(&Wrapping(x)).0)),
        "glue.zero_like.set_zero_uint" => { let mut y = x; Zero::set_zero(&mut y); return val1(uv(&y)); }
        "glue.zero_like.set_zero_int" => { let mut y = x.as_int(); Zero::set_zero(&mut y); return val1(iv(&y)); }
        "glue.zero_like.set_zero_wrapping_uint" => { let mut y = Wrapping(x); Zero::set_zero(&mut y); return val1(uv(&y.0)); }
        "glue.shl_wide_expect" => {
            let hi: Uint<N> = u(ar(a, 1));
            let s = u32::try_from(sc(a, 2)).ok()?;
            let (l, h) = Uint::overflowing_shl_vartime_wide((x, hi), s).expect("shift within range");
            return val2(uv(&l), uv(&h));
        }
        "glue.shr_wide_expect" => {
            let hi: Uint<N> = u(ar(a, 1));
            let s = u32::try_from(sc(a, 2)).ok()?;
            let (l, h) = Uint::overflowing_shr_vartime_wide((x, hi), s).expect("shift within range");
            return val2(uv(&l), uv(&h));
        }
        _ => {}
    }
    let y: Uint<N> = u(ar(a, 1));
    if let Some((k, route)) = checked_op_of(op) {
        return checked_route(k, route, x, y, uv);
    }
    match op {
        "uint.wrapping_mul.wrapper_vr" => val1(uv(&(Wrapping(x) * &Wrapping(y)).0)),
        "uint.wrapping_mul.wrapper_rv" => val1(uv(&(&Wrapping(x) * Wrapping(y)).0)),
        "uint.wrapping_mul.wrapper_assign_ref" => { let mut w = Wrapping(x); w *= &Wrapping(y); val1(uv(&w.0)) }
        "uint.checked_expr.assign" => {
            // (x op1 y) op2 z through the assigning operators; form bit 0 / bit 1: by value or by reference
            if sc(a, 6) != 0 { return None; }
            let z: Uint<N> = u(ar(a, 2));
            let f = sc(a, 5);
            let mut w = Checked::new(x);
            chk_apply(&mut w, sc(a, 3), Checked::new(y), f & 1 == 1);
            chk_apply(&mut w, sc(a, 4), Checked::new(z), f & 2 == 2);
            ctopt(w.0, uv)
        }
        _ => None,
    }
}
/// constants of a Uint<N> / Int<N> type: the limb count is the scalar argument 0
fn uint_consts<const N: usize>(op: &str, a: &Args) -> Option<Out> {
    match op {
        "glue.zero.uint_num" => val1(uv(&<Uint<N> as num_traits::Zero>::zero())),
        "glue.zero.int_num" => val1(iv(&<Int<N> as num_traits::Zero>::zero())),
        "glue.zero.wrapping_num_uint" => val1(uv(&<Wrapping<Uint<N>> as num_traits::Zero>::zero().0)),
        "glue.zero.checked_default_uint" => ctopt(Checked::<Uint<N>>::default().0, uv),
        "glue.one.uint_num" => val1(uv(&<Uint<N> as num_traits::One>::one())),
        "glue.one.uint_integer" => val1(uv(&<Uint<N> as Integer>::one())),
        "glue.one.wrapping_num_uint" => val1(uv(&<Wrapping<Uint<N>> as num_traits::One>::one().0)),
        _ => None,
    }
}
fn uint_from_limb_like<const N: usize>(_op: &str, a: &Args) -> Option<Out> {
    let other: Uint<N> = u(ar(a, 1));
    val1(uv(&<Uint<N> as Integer>::from_limb_like(Limb(sc(a, 0)), &other)))
}
fn pow_front<const N: usize>(op: &str, a: &Args) -> Option<Out> {
    let e: Uint<N> = u(ar(a, 0));
    match op {
        "glue.pow_front" => {
            let base = Rec(vec![vec![sc(a, 1)]]);
            Some(Out::Val(Pow::pow(&base, &e).0))
        }
        "glue.multi_exp_front" => {
            let e2: Uint<N> = u(ar(a, 1));
            let pairs = [(Rec(vec![vec![sc(a, 2)]]), e), (Rec(vec![vec![sc(a, 3)]]), e2)];
            Some(Out::Val(<Rec as MultiExponentiate<Uint<N>, [(Rec, Uint<N>)]>>::multi_exponentiate(&pairs[..]).0))
        }
        _ => None,
    }
}
/// serde of the wrappers needs the `Encoding` impl of a concrete alias
fn uint_serde(op: &str, a: &Args, n: usize) -> Option<Out> {
    for_n!(n, [1, 2, 3, 4, 5, 6, 7, 8, 16, 32], NN, {
        type T = Uint<NN>;
        match op {
            "uint.serde_ser.wrapping" => { let x: T = u(ar(a, 0)); val1(bo(&bincode::serialize(&Wrapping(x)).unwrap())) }
            "uint.serde_ser.nz" => { let x: T = u(ar(a, 0)); val1(bo(&bincode::serialize(&NonZero::new(x).unwrap()).unwrap())) }
            "uint.serde_ser.odd" => { let x: T = u(ar(a, 0)); val1(bo(&bincode::serialize(&Odd::new(x).unwrap()).unwrap())) }
            "uint.serde_de.wrapping" => match bincode::deserialize::<Wrapping<T>>(&by(a, 0)) {
                Ok(w) => val1(uv(&w.0)),
                Err(_) => Some(Out::Err(0)),
            },
            "glue.checked_ser" => {
                let x: T = u(ar(a, 0));
                let c: Checked<T> = Checked::from(CtOption::new(x, choice(sc(a, 1))));
                val1(bo(&bincode::serialize(&c).unwrap()))
            }
            "glue.checked_de" => match bincode::deserialize::<Checked<T>>(&by(a, 0)) {
                Ok(c) => ctopt(c.0, uv),
                Err(_) => Some(Out::Err(0)),
            },
            _ => None,
        }
    })
}

// ---------------------------------------------------------------- BoxedUint
fn boxed_ops(op: &str, a: &Args) -> Option<Out> {
    match op {
        "glue.zero.boxed_num" => return val1(bv(&<BoxedUint as num_traits::Zero>::zero())),
        "glue.zero.boxed_zero_trait" => return val1(bv(&<BoxedUint as Zero>::zero())),
        "glue.zero.boxed_default" => return val1(bv(&BoxedUint::default())),
        "glue.zero.wrapping_num_boxed" => return val1(bv(&<Wrapping<BoxedUint> as num_traits::Zero>::zero().0)),
        "glue.zero.checked_default_boxed" => return ctopt(Checked::<BoxedUint>::default().0, bv),
        "glue.one.boxed_num" => return val1(bv(&<BoxedUint as num_traits::One>::one())),
        "glue.one.boxed_integer" => return val1(bv(&<BoxedUint as Integer>::one())),
        "glue.one.wrapping_num_boxed" => return val1(bv(&<Wrapping<BoxedUint> as num_traits::One>::one().0)),
        "glue.max_boxed" => return val1(bv(&BoxedUint::max(u32::try_from(sc(a, 0)).ok()?))),
        "glue.from_limb_like.boxed" => {
            return val1(bv(&<BoxedUint as Integer>::from_limb_like(Limb(sc(a, 0)), &bx(ar(a, 1)))));
        }
        _ => {}
    }
    let x = bx(ar(a, 0));
    match op {
        "boxed.is_one.wrapping_num" => return val1(bl(num_traits::One::is_one(&Wrapping(x)))),
        "boxed.fmt.wrapping" => return fmt6(&Wrapping(x), sc(a, 1)),
        "boxed.fmt.nz" => return fmt6(&NonZero::new(x).unwrap(), sc(a, 1)),
        "boxed.fmt.odd" => return fmt6(&Odd::new(x).unwrap(), sc(a, 1)),
        "glue.nlimbs.boxed" => return val1(vec![Integer::nlimbs(&x) as u64]),
        "glue.bytes_precision.boxed" => return val1(vec![BitOps::bytes_precision(&x) as u64]),
        "glue.one_like.boxed" => return val1(bv(&Integer::one_like(&x))),
        "glue.zero_like.boxed" => return val1(bv(&Zero::zero_like(&x))),
        "glue.zero_like.set_zero_boxed" => { let mut y = x; Zero::set_zero(&mut y); return val1(bv(&y)); }
        "glue.zero_like_wrapping_boxed" => return val1(bv(&Zero::zero_like(&Wrapping(x)).0)),
        "glue.zero_like_wrapping_boxed.set_zero" => { let mut y = Wrapping(x); Zero::set_zero(&mut y); return val1(bv(&y.0)); }
        _ => {}
    }
    let y = bx(ar(a, 1));
    match op {
        "boxed.wrapping_mul.wrapper_vr" => val1(bv(&(Wrapping(x) * &Wrapping(y)).0)),
        "boxed.wrapping_mul.wrapper_rv" => val1(bv(&(&Wrapping(x) * Wrapping(y)).0)),
        "boxed.wrapping_mul.wrapper_assign_ref" => { let mut w = Wrapping(x); w *= &Wrapping(y); val1(bv(&w.0)) }
        _ => None,
    }
}

// ---------------------------------------------------------------- NonZero<T> / Odd<T>: AsRef (args: value, kind)
fn same_n<const N: usize>(op: &str, a: &Args) -> Option<Out> {
    let v = ar(a, 0);
    match (op, sc(a, 1)) {
        ("w.nz.same.as_ref_trait", 1) => { let x = NonZero::new(u::<N>(v)).unwrap(); let r: &Uint<N> = AsRef::<Uint<N>>::as_ref(&x); val1(uv(r)) }
        ("w.nz.same.as_ref_trait", 2) => { let x = NonZero::new(si::<N>(v)).unwrap(); let r: &Int<N> = AsRef::<Int<N>>::as_ref(&x); val1(iv(r)) }
        ("w.odd.same.as_ref_trait", 1) => { let x = Odd::new(u::<N>(v)).unwrap(); let r: &Uint<N> = AsRef::<Uint<N>>::as_ref(&x); val1(uv(r)) }
        ("w.odd.same.as_ref_trait", 2) => { let x = si::<N>(v).to_odd().unwrap(); let r: &Int<N> = AsRef::<Int<N>>::as_ref(&x); val1(iv(r)) }
        ("w.odd.same.as_ref_limbs", 1) => { let x = Odd::new(u::<N>(v)).unwrap(); let r: &[Limb] = AsRef::<[Limb]>::as_ref(&x); val1(lvs(r)) }
        ("w.odd.same.as_ref_limbs", 2) => { let x = si::<N>(v).to_odd().unwrap(); let r: &[Limb] = AsRef::<[Limb]>::as_ref(&x); val1(lvs(r)) }
        _ => None,
    }
}
fn same_limb_boxed(op: &str, a: &Args) -> Option<Out> {
    let v = ar(a, 0);
    match (op, sc(a, 1)) {
        ("w.nz.same.as_ref_trait", 0) => { let x = NonZero::new(Limb(sc(a, 0))).unwrap(); let r: &Limb = AsRef::<Limb>::as_ref(&x); val1(lv(*r)) }
        ("w.nz.same.as_ref_trait", 3) => { let x = NonZero::new(bx(v)).unwrap(); let r: &BoxedUint = AsRef::<BoxedUint>::as_ref(&x); val1(bv(r)) }
        ("w.odd.same.as_ref_trait", 3) => { let x = Odd::new(bx(v)).unwrap(); let r: &BoxedUint = AsRef::<BoxedUint>::as_ref(&x); val1(bv(r)) }
        ("w.odd.same.as_ref_limbs", 3) => { let x = Odd::new(bx(v)).unwrap(); let r: &[Limb] = AsRef::<[Limb]>::as_ref(&x); val1(lvs(r)) }
        _ => None,
    }
}

// ---------------------------------------------------------------- Reciprocal (fields through its derived Debug)
fn recip_out(r: &Reciprocal) -> Option<Out> {
    let s = format!("{:?}", r);
    let num = |key: &str| -> u64 {
        let i = s.find(key).expect("Reciprocal Debug format") + key.len();
        let rest: String = s[i..].chars().skip_while(|c| !c.is_ascii_digit()).take_while(|c| c.is_ascii_digit()).collect();
        rest.parse().expect("Reciprocal Debug number")
    };
    Some(Out::Val(vec![vec![num("divisor_normalized")], vec![num("shift")], vec![num(" reciprocal")]]))
}
/// divisor 0 stands for `Reciprocal::default()`
fn recip_of(d: u64) -> Reciprocal {
    if d == 0 { Reciprocal::default() } else { Reciprocal::new(NonZero::new(Limb(d)).unwrap()) }
}

fn misc_ops(op: &str, a: &Args) -> Option<Out> {
    match op {
        "glue.zero.limb_num" => val1(lv(<Limb as num_traits::Zero>::zero())),
        "glue.zero.wrapping_num_limb" => val1(lv(<Wrapping<Limb> as num_traits::Zero>::zero().0)),
        "glue.zero.checked_default_limb" => ctopt(Checked::<Limb>::default().0, |r| lv(*r)),
        "glue.one.limb_num" => val1(lv(<Limb as num_traits::One>::one())),
        "glue.one.wrapping_num_limb" => val1(lv(<Wrapping<Limb> as num_traits::One>::one().0)),
        "glue.zero_like.limb" => val1(lv(Zero::zero_like(&Limb(sc(a, 0))))),
        "glue.zero_like.set_zero_limb" => { let mut y = Limb(sc(a, 0)); Zero::set_zero(&mut y); val1(lv(y)) }
        "glue.recip_default" => recip_out(&Reciprocal::default()),
        "glue.recip_default.trait" => recip_out(&<Reciprocal as Default>::default()),
        "glue.recip_select" => recip_out(&Reciprocal::conditional_select(&recip_of(sc(a, 0)), &recip_of(sc(a, 1)), choice(sc(a, 2)))),
        "glue.cc_eq" => val1(bl(cchoice(sc(a, 0)) == cchoice(sc(a, 1)))),
        "glue.cc_eq.ne" => val1(bl(!(cchoice(sc(a, 0)) != cchoice(sc(a, 1))))),
        "glue.decode_error_text" => {
            let e = match sc(a, 0) {
                0 => DecodeError::Empty,
                1 => DecodeError::InvalidDigit,
                2 => DecodeError::InputSize,
                3 => DecodeError::Precision,
                _ => return None,
            };
            val1(bo(format!("{}", e).as_bytes()))
        }
        "glue.random_bits_error_text" => {
            let (x, y) = (u32::try_from(sc(a, 1)).ok()?, u32::try_from(sc(a, 2)).ok()?);
            let e: RandomBitsError<String> = match sc(a, 0) {
                0 => RandomBitsError::RandCore(String::from_utf8(by(a, 3)).expect("harness: text argument")),
                1 => RandomBitsError::BitsPrecisionMismatch { bits_precision: x, integer_bits: y },
                2 => RandomBitsError::BitLengthTooLarge { bit_length: x, bits_precision: y },
                _ => return None,
            };
            val1(bo(format!("{}", e).as_bytes()))
        }
        "glue.fmt_octal.wrapping" => oct(&Wrapping(sc(a, 0)), sc(a, 1)),
        "glue.fmt_octal.nz" => oct(&NonZero::new(Oct(sc(a, 0))).unwrap(), sc(a, 1)),
        "glue.checked_ser_limb" => {
            let c: Checked<Limb> = Checked::from(CtOption::new(Limb(sc(a, 0)), choice(sc(a, 1))));
            val1(bo(&bincode::serialize(&c).unwrap()))
        }
        "glue.checked_de_limb" => match bincode::deserialize::<Checked<Limb>>(&by(a, 0)) {
            Ok(c) => ctopt(c.0, |r| lv(*r)),
            Err(_) => Some(Out::Err(0)),
        },
        _ => None,
    }
}

pub fn run(op: &str, a: &Args) -> Option<Out> {
    if !OPS.contains(&op) {
        return None;
    }
    if op.starts_with("limb.") {
        return limb_ops(op, a);
    }
    if op.starts_with("boxed.") || op.ends_with(".boxed") || op.ends_with("_boxed") || op.contains("boxed_") || op.starts_with("glue.zero_like_wrapping_boxed") {
        return boxed_ops(op, a);
    }
    if op.starts_with("w.") {
        return match sc(a, 1) {
            0 | 3 => same_limb_boxed(op, a),
            _ => with_n!(ar(a, 0).len(), [1, 2, 3, 4, 5, 6, 7, 8, 16, 32], same_n, op, a),
        };
    }
    match op {
        "uint.serde_ser.wrapping" | "uint.serde_ser.nz" | "uint.serde_ser.odd" | "glue.checked_ser" => {
            return uint_serde(op, a, ar(a, 0).len());
        }
        "uint.serde_de.wrapping" | "glue.checked_de" => return uint_serde(op, a, sc(a, 1) as usize),
        "glue.zero.uint_num" | "glue.zero.int_num" | "glue.zero.wrapping_num_uint" | "glue.zero.checked_default_uint"
        | "glue.one.uint_num" | "glue.one.uint_integer" | "glue.one.wrapping_num_uint" => {
            return with_n!(sc(a, 0) as usize, [1, 2, 3, 4, 5, 6, 7, 8, 16, 32], uint_consts, op, a);
        }
        "glue.from_limb_like.uint" => {
            return with_n!(ar(a, 1).len(), [1, 2, 3, 4, 5, 6, 7, 8, 16, 32], uint_from_limb_like, op, a);
        }
        "glue.pow_front" | "glue.multi_exp_front" => {
            return with_n!(ar(a, 0).len(), [1, 2, 3, 4, 5, 6, 7, 8, 16, 32], pow_front, op, a);
        }
        _ => {}
    }
    if op.starts_with("uint.") || op.starts_with("int.") || op.ends_with(".uint") || op.ends_with(".int") || op.ends_with("_uint")
        || op.ends_with("_int") || op.ends_with("_wide_expect")
    {
        return with_n!(ar(a, 0).len(), [1, 2, 3, 4, 5, 6, 7, 8, 16, 32], uint_ops, op, a);
    }
    misc_ops(op, a)
}
