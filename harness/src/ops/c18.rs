//! C18 adapters: the ASN.1 DER INTEGER codec (`der` feature: `Encode` / `Decode` / `EncodeValue` /
//! `DecodeValue`, `TryFrom<AnyRef>`, `TryFrom<UintRef>`) and the RLP codec (`rlp` feature:
//! `Encodable` / `Decodable`) of `Uint<N>`.  Byte strings travel as one byte value per word.
//! Errors are reported as `err <kind>` with the numbering of `der_kind` / `rlp_kind` below (the same
//! numbering as coq/Model/Der.v).  Panics are caught by main.rs.
use crate::util::*;
use crypto_bigint::rlp::{self, DecoderError, Rlp, RlpStream};
use crypto_bigint::{ArrayEncoding, Encoding, Uint};
use der::asn1::{AnyRef, UintRef};
use der::{Decode, DecodeValue, Encode, EncodeValue, ErrorKind, Header, Length, Reader, SliceReader, SliceWriter, Tag};

pub const OPS: &[&str] = &[
    "der.encode.to_der",
    "der.encode.to_slice",
    "der.encode.to_vec",
    "der.encode.writer",
    "der.encoded_len",
    "der.value_len",
    "der.encode_value",
    "der.from_der",
    "der.from_der.from_ber",
    "der.from_der.reader",
    "der.from_der.reader_decode",
    "der.from_any.try_from",
    "der.from_any.try_into",
    "der.from_any.decode_as",
    "der.from_any_parts",
    "der.from_uintref.try_from",
    "der.from_uintref.try_into",
    "der.decode_value",
    "rlp.encode",
    "rlp.encode.stream",
    "rlp.encode.rlp_bytes",
    "rlp.encode.list_item",
    "rlp.encode.list_first_of_two",
    "rlp.encode.list_pair",
    "rlp.decode",
    "rlp.decode.as_val",
    "rlp.decode.trait",
    "rlp.decode_item",
];

fn by(a: &Args, i: usize) -> Vec<u8> {
    ar(a, i)
        .iter()
        .map(|&w| {
            assert!(w < 256, "harness: byte argument out of range");
            w as u8
        })
        .collect()
}
fn bo(b: &[u8]) -> Vec<u64> {
    b.iter().map(|&x| x as u64).collect()
}

/// numbering of `der::ErrorKind` (Model/Der.v: E_*)
fn der_kind(e: &der::Error) -> u32 {
    match e.kind() {
        ErrorKind::Incomplete { .. } => 1,
        ErrorKind::TagUnknown { .. } => 2,
        ErrorKind::TagUnexpected { .. } => 3,
        ErrorKind::TagNumberInvalid => 4,
        ErrorKind::IndefiniteLength => 5,
        ErrorKind::Length { .. } => 6,
        ErrorKind::Overflow => 7,
        ErrorKind::Overlength => 8,
        ErrorKind::Noncanonical { .. } => 9,
        ErrorKind::Value { .. } => 10,
        ErrorKind::TrailingData { .. } => 11,
        ErrorKind::Failed => 12,
        _ => 99,
    }
}
fn derr<T>(r: Result<T, der::Error>, f: impl Fn(T) -> Vec<u64>) -> Option<Out> {
    match r {
        Ok(x) => val1(f(x)),
        Err(e) => Some(Out::Err(der_kind(&e))),
    }
}
/// numbering of `rlp::DecoderError` (Model/Der.v: R_*)
fn rlp_kind(e: &DecoderError) -> u32 {
    match e {
        DecoderError::RlpIsTooBig => 1,
        DecoderError::RlpIsTooShort => 2,
        DecoderError::RlpExpectedToBeList => 3,
        DecoderError::RlpExpectedToBeData => 4,
        DecoderError::RlpIncorrectListLen => 5,
        DecoderError::RlpDataLenWithZeroPrefix => 6,
        DecoderError::RlpListLenWithZeroPrefix => 7,
        DecoderError::RlpInvalidIndirection => 8,
        DecoderError::RlpInconsistentLengthAndData => 9,
        DecoderError::RlpInvalidLength => 10,
        DecoderError::Custom(_) => 11,
    }
}
fn rerr<const N: usize>(r: Result<Uint<N>, DecoderError>) -> Option<Out> {
    match r {
        Ok(x) => val1(uv(&x)),
        Err(e) => Some(Out::Err(rlp_kind(&e))),
    }
}

fn der_enc<const N: usize>(op: &str, a: &Args) -> Option<Out>
where
    Uint<N>: ArrayEncoding,
{
    let x: Uint<N> = u(ar(a, 0));
    match op {
        "der.encode.to_der" => derr(x.to_der(), |v| bo(&v)),
        "der.encode.to_slice" => {
            let mut buf = vec![0u8; 8 * N + 16];
            derr(x.encode_to_slice(&mut buf), |s| bo(s))
        }
        "der.encode.to_vec" => {
            // the returned length is the number of octets written
            let mut v: Vec<u8> = Vec::new();
            match x.encode_to_vec(&mut v) {
                Ok(l) => {
                    assert_eq!(u32::from(l) as usize, v.len(), "harness: encode_to_vec length");
                    
                    val1(bo(&v))
                }
                Err(e) => Some(Out::Err(der_kind(&e))),
            }
        }
        "der.encode.writer" => {
            let mut buf = vec![0u8; 8 * N + 16];
            let mut w = SliceWriter::new(&mut buf);
            match x.encode(&mut w) {
                Ok(()) => derr(w.finish(), |s| bo(s)),
                Err(e) => Some(Out::Err(der_kind(&e))),
            }
        }
        "der.encoded_len" => derr(x.encoded_len(), |l| vec![u32::from(l) as u64]),
        "der.value_len" => derr(x.value_len(), |l| vec![u32::from(l) as u64]),
        "der.encode_value" => {
            let mut buf = vec![0u8; 8 * N + 16];
            let mut w = SliceWriter::new(&mut buf);
            match x.encode_value(&mut w) {
                Ok(()) => derr(w.finish(), |s| bo(s)),
                Err(e) => Some(Out::Err(der_kind(&e))),
            }
        }
        _ => None,
    }
}

fn der_dec<const N: usize>(op: &str, a: &Args) -> Option<Out>
where
    Uint<N>: ArrayEncoding,
{
    let b = by(a, 0);
    match op {
        "der.from_der" => derr(Uint::<N>::from_der(&b), |x| uv(&x)),
        "der.from_der.from_ber" => derr(Uint::<N>::from_ber(&b), |x| uv(&x)),
        "der.from_der.reader" => {
            let r = (|| {
                let mut rd = SliceReader::new(&b)?;
                let x = <Uint<N> as Decode>::decode(&mut rd)?;
                rd.finish(x)
            })();
            derr(r, |x| uv(&x))
        }
        "der.from_der.reader_decode" => {
            let r = (|| {
                let mut rd = SliceReader::new(&b)?;
                let x: Uint<N> = rd.decode()?;
                rd.finish(x)
            })();
            derr(r, |x| uv(&x))
        }
        "der.from_any.try_from" => {
            let r = (|| {
                let any = AnyRef::from_der(&b)?;
                Uint::<N>::try_from(any)
            })();
            derr(r, |x| uv(&x))
        }
        "der.from_any.try_into" => {
            let r = (|| {
                let any: AnyRef<'_> = AnyRef::try_from(&b[..])?;
                let x: Uint<N> = any.try_into()?;
                Ok(x)
            })();
            derr(r, |x| uv(&x))
        }
        "der.from_any.decode_as" => {
            let r = (|| {
                let any = AnyRef::from_der(&b)?;
                any.decode_as::<Uint<N>>()
            })();
            derr(r, |x| uv(&x))
        }
        "der.from_uintref.try_from" => {
            let r = (|| {
                let ur = UintRef::new(&b)?;
                Uint::<N>::try_from(ur)
            })();
            derr(r, |x| uv(&x))
        }
        "der.from_uintref.try_into" => {
            let r = (|| {
                let ur = UintRef::new(&b)?;
                let x: Uint<N> = ur.try_into()?;
                Ok(x)
            })();
            derr(r, |x| uv(&x))
        }
        _ => None,
    }
}

/// `der.from_any_parts`: tag octet ; content octets ; n
fn der_any_parts<const N: usize>(a: &Args) -> Option<Out>
where
    Uint<N>: ArrayEncoding,
{
    let t = sc(a, 0);
    assert!(t < 256);
    let b = by(a, 1);
    let r = (|| {
        let tag = Tag::try_from(t as u8)?;
        let any = AnyRef::new(tag, &b)?;
        Uint::<N>::try_from(any)
    })();
    derr(r, |x| uv(&x))
}

/// `der.decode_value`: header length ; input octets ; n  ->  value ; octets left in the reader
fn der_decode_value<const N: usize>(a: &Args) -> Option<Out>
where
    Uint<N>: ArrayEncoding,
{
    let hl = sc(a, 0);
    let b = by(a, 1);
    let r = (|| {
        let length = Length::try_from(hl as u32)?;
        let header = Header { tag: Tag::Integer, length };
        let mut rd = SliceReader::new(&b)?;
        let x = <Uint<N> as DecodeValue>::decode_value(&mut rd, header)?;
        Ok((x, u32::from(rd.remaining_len()) as u64))
    })();
    match r {
        Ok((x, rem)) => val2(uv(&x), vec![rem]),
        Err(e) => Some(Out::Err(der_kind(&e))),
    }
}

/// list header of the rlp grammar around `payload` (used to reach `Rlp::val_at`)
fn rlp_list_of(payload: &[u8]) -> Vec<u8> {
    let mut v = Vec::new();
    let l = payload.len();
    if l <= 55 {
        v.push(0xc0 + l as u8);
    } else {
        let be = (l as u32).to_be_bytes();
        let skip = be.iter().take_while(|&&x| x == 0).count();
        v.push(0xf7 + (4 - skip) as u8);
        v.extend_from_slice(&be[skip..]);
    }
    v.extend_from_slice(payload);
    v
}

fn rlp_enc<const N: usize>(op: &str, a: &Args) -> Option<Out>
where
    Uint<N>: Encoding,
{
    let x: Uint<N> = u(ar(a, 0));
    match op {
        "rlp.encode" => val1(bo(&rlp::encode(&x))),
        "rlp.encode.stream" => {
            let mut s = RlpStream::new();
            s.append(&x);
            val1(bo(&s.out()))
        }
        "rlp.encode.rlp_bytes" => val1(bo(&rlp::Encodable::rlp_bytes(&x))),
        "rlp.encode.list_item" => {
            // the item inside a one-element list: strip the list header again
            let mut s = RlpStream::new_list(1);
            s.append(&x);
            let out = s.out();
            let item = rlp::encode(&x);
            let want = rlp_list_of(&item);
            assert_eq!(&out[..], &want[..], "harness: list framing");
            val1(bo(&out[out.len() - item.len()..]))
        }
        "rlp.encode.list_first_of_two" => {
            // the item as the FIRST element of a bounded two-element list, followed by a u64: the list must close
            // after exactly two items (an encoder that counts itself twice closes the list early)
            let mut s = RlpStream::new_list(2);
            s.append(&x);
            s.append(&0x1234u64);
            let out = s.out();
            let item = rlp::encode(&x);
            let mut payload = item.to_vec();
            payload.extend_from_slice(&rlp::encode(&0x1234u64));
            let want = rlp_list_of(&payload);
            assert_eq!(&out[..], &want[..], "harness: framing of a two-element list");
            val1(bo(&item))
        }
        "rlp.encode.list_pair" => {
            // rlp::encode_list of two copies of the value: one list holding both items
            let out = rlp::encode_list::<Uint<N>, _>(&[x, x]);
            let item = rlp::encode(&x);
            let mut payload = item.to_vec();
            payload.extend_from_slice(&item);
            let want = rlp_list_of(&payload);
            assert_eq!(&out[..], &want[..], "harness: framing of encode_list");
            val1(bo(&item))
        }
        _ => None,
    }
}

fn rlp_dec<const N: usize>(op: &str, a: &Args) -> Option<Out>
where
    Uint<N>: Encoding + rlp::Decodable,
{
    let b = by(a, 0);
    match op {
        "rlp.decode" => rerr(rlp::decode::<Uint<N>>(&b)),
        "rlp.decode.as_val" => rerr(Rlp::new(&b).as_val::<Uint<N>>()),
        "rlp.decode.trait" => rerr(<Uint<N> as rlp::Decodable>::decode(&Rlp::new(&b))),
        // the octets as the first item of a list: Rlp::val_at cuts the item out by its header
        "rlp.decode_item" => rerr(Rlp::new(&rlp_list_of(&b)).val_at::<Uint<N>>(0)),
        _ => None,
    }
}

pub fn run(op: &str, a: &Args) -> Option<Out> {
    macro_rules! widths_der {
        ($n:expr, $f:ident, $($args:expr),*) => {
            match $n {
                1 => $f::<1>($($args),*), 2 => $f::<2>($($args),*), 3 => $f::<3>($($args),*),
                4 => $f::<4>($($args),*), 6 => $f::<6>($($args),*), 7 => $f::<7>($($args),*),
                8 => $f::<8>($($args),*), 9 => $f::<9>($($args),*), 12 => $f::<12>($($args),*),
                13 => $f::<13>($($args),*), 14 => $f::<14>($($args),*), 16 => $f::<16>($($args),*),
                24 => $f::<24>($($args),*), 28 => $f::<28>($($args),*), 32 => $f::<32>($($args),*),
                48 => $f::<48>($($args),*), 56 => $f::<56>($($args),*), 64 => $f::<64>($($args),*),
                96 => $f::<96>($($args),*), 128 => $f::<128>($($args),*),
                _ => None,
            }
        };
    }
    macro_rules! widths_rlp_enc {
        ($n:expr, $f:ident, $($args:expr),*) => {
            match $n {
                1 => $f::<1>($($args),*), 2 => $f::<2>($($args),*), 3 => $f::<3>($($args),*),
                4 => $f::<4>($($args),*), 5 => $f::<5>($($args),*), 6 => $f::<6>($($args),*),
                7 => $f::<7>($($args),*), 8 => $f::<8>($($args),*), 9 => $f::<9>($($args),*),
                12 => $f::<12>($($args),*), 16 => $f::<16>($($args),*), 32 => $f::<32>($($args),*),
                64 => $f::<64>($($args),*), 128 => $f::<128>($($args),*), 256 => $f::<256>($($args),*),
                _ => None,
            }
        };
    }
    macro_rules! widths_rlp_dec {
        ($n:expr, $f:ident, $($args:expr),*) => {
            match $n {
                1 => $f::<1>($($args),*), 2 => $f::<2>($($args),*), 3 => $f::<3>($($args),*),
                4 => $f::<4>($($args),*),
                _ => None,
            }
        };
    }
    if op.starts_with("der.encode") || op == "der.value_len" {
        let n = ar(a, 0).len();
        return widths_der!(n, der_enc, op, a);
    }
    if op == "der.from_any_parts" {
        let n = sc(a, 2) as usize;
        return widths_der!(n, der_any_parts, a);
    }
    if op == "der.decode_value" {
        let n = sc(a, 2) as usize;
        return widths_der!(n, der_decode_value, a);
    }
    if op.starts_with("der.from_") {
        let n = sc(a, 1) as usize;
        return widths_der!(n, der_dec, op, a);
    }
    if op.starts_with("rlp.encode") {
        let n = ar(a, 0).len();
        return widths_rlp_enc!(n, rlp_enc, op, a);
    }
    if op.starts_with("rlp.decode") {
        let n = sc(a, 1) as usize;
        return widths_rlp_dec!(n, rlp_dec, op, a);
    }
    None
}
