//! C16 adapters: byte / hex / array / word / primitive / serde conversions, concat / split / resize /
//! widen / shorten and the formatting traits of Limb, Uint<N>, Int<N>, BoxedUint (+ the decoding
//! entry points of NonZero and Odd). Byte and hex strings travel as one byte value per word.
use crate::util::*;
use crypto_bigint::hybrid_array::Array;
use crypto_bigint::{
    ArrayDecoding, ArrayEncoding, BoxedUint, ByteArray, Concat, ConcatMixed, DecodeError, Encoding, Int,
    Limb, NonZero, Odd, Split, SplitMixed, Uint, WideWord, Word,
};
use std::fmt::{Binary, Debug, Display, LowerHex, UpperHex};

pub const OPS: &[&str] = &[
    "boxed.fmt",
    "boxed.from_be_hex",
    "boxed.from_be_slice",
    "boxed.from_le_slice",
    "boxed.from_prim",
    "boxed.from_vec",
    "boxed.from_vec.boxed_slice",
    "boxed.from_vec.words",
    "boxed.shorten",
    "boxed.widen",
    "boxed.widen.nonzero",
    "int.fmt",
    "int.from_prim",
    "int.from_prim.from",
    "int.resize",
    "int.resize.from_ref",
    "limb.fmt",
    "limb.from_be_bytes",
    "limb.from_le_bytes",
    "limb.from_le_bytes.serde",
    "limb.from_prim",
    "limb.from_prim.from",
    "limb.from_prim.into_wide",
    "limb.from_prim.into_word",
    "limb.to_be_bytes",
    "limb.to_le_bytes",
    "limb.to_le_bytes.serde",
    "nonzero.from_be_bytes",
    "nonzero.from_be_bytes.array",
    "nonzero.from_le_byte_array",
    "nonzero.from_le_bytes",
    "odd.from_be_hex",
    "odd.from_le_hex",
    "uint.concat.concat",
    "uint.concat.from_tuple",
    "uint.concat.from_tuple_ref",
    "uint.concat.mixed",
    "uint.concat.trait",
    "uint.concat.trait_even",
    "uint.fmt",
    "uint.from_be_hex",
    "uint.from_be_hex.int",
    "uint.from_be_slice",
    "uint.from_be_slice.array",
    "uint.from_be_slice.array_dec",
    "uint.from_be_slice.trait",
    "uint.from_le_hex",
    "uint.from_le_slice",
    "uint.from_le_slice.array",
    "uint.from_le_slice.array_dec",
    "uint.from_le_slice.trait",
    "uint.from_prim",
    "uint.from_prim.from",
    "uint.resize",
    "uint.resize.from_ref",
    "uint.serde_de",
    "uint.serde_ser",
    "uint.split.into_tuple",
    "uint.split.mixed",
    "uint.split.split",
    "uint.split.trait",
    "uint.split.trait_even",
    "uint.to_be_bytes.array",
    "uint.to_be_bytes.boxed",
    "uint.to_be_bytes.inherent",
    "uint.to_be_bytes.trait",
    "uint.to_le_bytes.array",
    "uint.to_le_bytes.boxed",
    "uint.to_le_bytes.inherent",
        "uint.to_le_bytes.trait",
    "uint.to_prim",
    "uint.to_prim.int",
    "uint.words_id.as_limbs",
    "uint.words_id.as_limbs_mut",
    "uint.words_id.as_mut_limbs",
    "uint.words_id.as_mut_words",
    "uint.words_id.as_ref_limbs",
    "uint.words_id.as_ref_words",
    "uint.words_id.as_words",
    "uint.words_id.as_words_mut",
    "uint.words_id.boxed_as_limbs",
    "uint.words_id.boxed_as_mut",
    "uint.words_id.boxed_as_words",
    "uint.words_id.boxed_from_box",
    "uint.words_id.boxed_from_odd",
    "uint.words_id.boxed_from_slice",
    "uint.words_id.boxed_from_uint",
    "uint.words_id.boxed_from_uint_ref",
    "uint.words_id.boxed_from_words",
    "uint.words_id.boxed_into_limbs",
    "uint.words_id.boxed_to_limbs",
    "uint.words_id.from_limb_arr",
    "uint.words_id.from_word_arr",
    "uint.words_id.from_words",
    "uint.words_id.int_as_uint",
    "uint.words_id.int_as_words",
    "uint.words_id.int_limbs",
    "uint.words_id.int_words",
    "uint.words_id.to_limbs",
];

fn by(a: &Args, i: usize) -> Vec<u8> {
    ar(a, i)
        .iter()
        .map(|&w| {
            assert!(w < 256, "harness: byte argument out of range");
            w as u8
        })
        .collect()
}
fn bo(b: &[u8]) -> Vec<u64> {
    b.iter().map(|&x| x as u64).collect()
}
fn st(a: &Args, i: usize) -> String {
    String::from_utf8(by(a, i)).expect("harness: string argument is not valid UTF-8")
}
fn derr(e: DecodeError) -> Option<Out> {
    Some(Out::Err(match e {
        DecodeError::Empty => 0,
        DecodeError::InvalidDigit => 1,
        DecodeError::InputSize => 2,
        DecodeError::Precision => 3,
    }))
}
fn fmt_kind<T: Display + LowerHex + UpperHex + Binary + Debug>(x: &T, kind: u64) -> Option<Out> {
    let s = match kind {
        0 => format!("{}", x),
        1 => format!("{:x}", x),
        2 => format!("{:X}", x),
        3 => format!("{:b}", x),
        4 => format!("{:#x}", x),
        5 => format!("{:#X}", x),
        6 => format!("{:#b}", x),
        _ => format!("{:?}", x),
    };
    val1(bo(s.as_bytes()))
}
fn prim128(a: &Args, i: usize) -> u128 {
    let v = ar(a, i);
    (v.first().copied().unwrap_or(0) as u128) | ((v.get(1).copied().unwrap_or(0) as u128) << 64)
}
fn w128(w: u128) -> Vec<u64> {
    vec![w as u64, (w >> 64) as u64]
}
fn limbs_of(v: &[u64]) -> Vec<Limb> {
    v.iter().map(|&w| Limb(w)).collect()
}
fn lvs(l: &[Limb]) -> Vec<u64> {
    l.iter().map(|x| x.0).collect()
}

/// Expand `$body` once per listed limb count with `$N` bound to a constant.
macro_rules! for_n {
    ($n:expr, [$($k:literal),*], $N:ident, $body:block) => {
        match $n {
            $( $k => { const $N: usize = $k; $body } )*
            _ => None,
        }
    };
}

fn limb_ops(op: &str, a: &Args) -> Option<Out> {
    match op {
        "limb.to_be_bytes" => val1(bo(&Encoding::to_be_bytes(&Limb(sc(a, 0))))),
        "limb.to_le_bytes" => val1(bo(&Encoding::to_le_bytes(&Limb(sc(a, 0))))),
        "limb.to_le_bytes.serde" => val1(bo(&bincode::serialize(&Limb(sc(a, 0))).unwrap())),
        "limb.from_be_bytes" => {
            let b: [u8; 8] = by(a, 0).as_slice().try_into().expect("harness: 8 bytes");
            val1(lv(<Limb as Encoding>::from_be_bytes(b)))
        }
        "limb.from_le_bytes" => {
            let b: [u8; 8] = by(a, 0).as_slice().try_into().expect("harness: 8 bytes");
            val1(lv(<Limb as Encoding>::from_le_bytes(b)))
        }
        "limb.from_le_bytes.serde" => match bincode::deserialize::<Limb>(&by(a, 0)) {
            Ok(l) => val1(lv(l)),
            Err(_) => Some(Out::Err(0)),
        },
        "limb.fmt" => fmt_kind(&Limb(sc(a, 0)), sc(a, 1)),
        "limb.from_prim" => {
            let v = sc(a, 0);
            val1(lv(match sc(a, 1) {
                8 => Limb::from_u8(v as u8),
                16 => Limb::from_u16(v as u16),
                32 => Limb::from_u32(v as u32),
                _ => Limb::from_u64(v),
            }))
        }
        "limb.from_prim.from" => {
            let v = sc(a, 0);
            val1(lv(match sc(a, 1) {
                8 => Limb::from(v as u8),
                16 => Limb::from(v as u16),
                32 => Limb::from(v as u32),
                _ => Limb::from(v),
            }))
        }
        "limb.from_prim.into_word" => val1(vec![Word::from(Limb(sc(a, 0)))]),
        "limb.from_prim.into_wide" => {
            let w = WideWord::from(Limb(sc(a, 0)));
            if (w >> 64) == 0 { val1(vec![w as u64]) } else { val1(w128(w)) }
        }
        _ => None,
    }
}

/// ops that are generic over the limb count
fn uint_gen<const N: usize>(op: &str, a: &Args) -> Option<Out> {
    match op {
        "uint.from_be_slice" => val1(uv(&Uint::<N>::from_be_slice(&by(a, 0)))),
        "uint.from_le_slice" => val1(uv(&Uint::<N>::from_le_slice(&by(a, 0)))),
        "uint.from_be_hex" => val1(uv(&Uint::<N>::from_be_hex(&st(a, 0)))),
        "uint.from_be_hex.int" => val1(iv(&Int::<N>::from_be_hex(&st(a, 0)))),
        "uint.from_le_hex" => val1(uv(&Uint::<N>::from_le_hex(&st(a, 0)))),
        "odd.from_be_hex" => val1(uv(&Odd::<Uint<N>>::from_be_hex(&st(a, 0)).get())),
        "odd.from_le_hex" => val1(uv(&Odd::<Uint<N>>::from_le_hex(&st(a, 0)).get())),
        "uint.from_prim" => {
            let v = sc(a, 0);
            val1(uv(&match sc(a, 1) {
                8 => Uint::<N>::from_u8(v as u8),
                16 => Uint::<N>::from_u16(v as u16),
                32 => Uint::<N>::from_u32(v as u32),
                64 => Uint::<N>::from_u64(v),
                65 => Uint::<N>::from_word(v),
                128 => Uint::<N>::from_u128(prim128(a, 0)),
                129 => Uint::<N>::from_wide_word(prim128(a, 0)),
                _ => return None,
            }))
        }
        "uint.from_prim.from" => {
            let v = sc(a, 0);
            val1(uv(&match sc(a, 1) {
                1 => Uint::<N>::from(Limb(v)),
                8 => Uint::<N>::from(v as u8),
                16 => Uint::<N>::from(v as u16),
                32 => Uint::<N>::from(v as u32),
                64 => Uint::<N>::from(v),
                128 => Uint::<N>::from(prim128(a, 0)),
                _ => return None,
            }))
        }
        "int.from_prim" => {
            let v = sc(a, 0);
            val1(iv(&match sc(a, 1) {
                8 => Int::<N>::from_i8(v as u8 as i8),
                16 => Int::<N>::from_i16(v as u16 as i16),
                32 => Int::<N>::from_i32(v as u32 as i32),
                64 => Int::<N>::from_i64(v as i64),
                128 => Int::<N>::from_i128(prim128(a, 0) as i128),
                _ => return None,
            }))
        }
        "int.from_prim.from" => {
            let v = sc(a, 0);
            val1(iv(&match sc(a, 1) {
                8 => Int::<N>::from(v as u8 as i8),
                16 => Int::<N>::from(v as u16 as i16),
                32 => Int::<N>::from(v as u32 as i32),
                64 => Int::<N>::from(v as i64),
                128 => Int::<N>::from(prim128(a, 0) as i128),
                _ => return None,
            }))
        }
        _ => None,
    }
}

fn uint_val<const N: usize>(op: &str, a: &Args) -> Option<Out> {
    let x: Uint<N> = u(ar(a, 0));
    let words: [u64; N] = x.to_words();
    match op {
        "uint.fmt" => fmt_kind(&x, sc(a, 1)),
        "int.fmt" => fmt_kind(&x.as_int(), sc(a, 1)),
        "uint.words_id.from_words" => val1(Uint::<N>::from_words(words).to_words().to_vec()),
        "uint.words_id.as_words" => val1(x.as_words().to_vec()),
        "uint.words_id.as_words_mut" => { let mut y = x; val1(y.as_words_mut().to_vec()) }
        "uint.words_id.to_limbs" => val1(lvs(&Uint::<N>::new(x.to_limbs()).to_limbs())),
        "uint.words_id.as_limbs" => val1(lvs(x.as_limbs())),
        "uint.words_id.as_limbs_mut" => { let mut y = x; val1(lvs(y.as_limbs_mut())) }
        "uint.words_id.from_word_arr" => { let y = Uint::<N>::from(words); let w: [Word; N] = y.into(); val1(w.to_vec()) }
        "uint.words_id.from_limb_arr" => {
            let l: [Limb; N] = x.into();
            let y = Uint::<N>::from(l);
            val1(uv(&y))
        }
        "uint.words_id.as_ref_words" => { let r: &[Word; N] = x.as_ref(); val1(r.to_vec()) }
        "uint.words_id.as_ref_limbs" => { let r: &[Limb] = x.as_ref(); val1(lvs(r)) }
        "uint.words_id.as_mut_words" => { let mut y = x; let r: &mut [Word; N] = y.as_mut(); val1(r.to_vec()) }
        "uint.words_id.as_mut_limbs" => { let mut y = x; let r: &mut [Limb] = y.as_mut(); val1(lvs(r)) }
        "uint.words_id.int_words" => val1(Int::<N>::from_words(words).to_words().to_vec()),
        "uint.words_id.int_as_words" => { let mut y = Int::<N>::from_words(words); let w = y.as_words().to_vec(); assert_eq!(w, y.as_words_mut().to_vec()); val1(w) }
        "uint.words_id.int_limbs" => { let y = Int::<N>::new(x.to_limbs()); assert_eq!(lvs(y.as_limbs()), lvs(&y.to_limbs())); val1(lvs(&y.to_limbs())) }
        "uint.words_id.int_as_uint" => val1(uv(x.as_int().as_uint())),
        "uint.words_id.boxed_from_uint" => val1(bv(&BoxedUint::from(x))),
        "uint.words_id.boxed_from_uint_ref" => val1(bv(&BoxedUint::from(&x))),
        "uint.words_id.boxed_from_odd" => {
            // Odd is only a marker here: the conversion copies the limbs
            let o = Odd::new(x).into_option();
            match o {
                Some(o) => { let b1 = BoxedUint::from(&o); let b2 = BoxedUint::from(o); assert_eq!(bv(&b1), bv(&b2)); val1(bv(&b1)) }
                None => val1(bv(&BoxedUint::from(x))),
            }
        }
        _ => None,
    }
}

fn concat_lh<const L: usize, const H: usize, const O: usize>(op: &str, a: &Args) -> Option<Out>
where
    Uint<L>: ConcatMixed<Uint<H>, MixedOutput = Uint<O>>,
{
    let lo: Uint<L> = u(ar(a, 0));
    let hi: Uint<H> = u(ar(a, 1));
    match op {
        "uint.concat.mixed" => val1(uv(&Uint::<L>::concat_mixed::<H, O>(&lo, &hi))),
        "uint.concat.trait" => val1(uv(&ConcatMixed::concat_mixed(&lo, &hi))),
        "uint.concat.from_tuple" => val1(uv(&Uint::<O>::from((lo, hi)))),
        "uint.concat.from_tuple_ref" => val1(uv(&Uint::<O>::from(&(lo, hi)))),
        _ => None,
    }
}
fn concat_even<const L: usize, const O: usize>(op: &str, a: &Args) -> Option<Out>
where
    Uint<L>: Concat<Output = Uint<O>>,
{
    let lo: Uint<L> = u(ar(a, 0));
    let hi: Uint<L> = u(ar(a, 1));
    match op {
        "uint.concat.concat" => val1(uv(&lo.concat::<O>(&hi))),
        "uint.concat.trait_even" => val1(uv(&Concat::concat(&lo, &hi))),
        _ => None,
    }
}
fn split_lh<const L: usize, const H: usize, const I: usize>(op: &str, a: &Args) -> Option<Out>
where
    Uint<I>: SplitMixed<Uint<L>, Uint<H>>,
{
    let x: Uint<I> = u(ar(a, 0));
    let (lo, hi): (Uint<L>, Uint<H>) = match op {
        "uint.split.mixed" => x.split_mixed::<L, H>(),
        "uint.split.trait" => SplitMixed::split_mixed(&x),
        "uint.split.into_tuple" => x.into(),
        _ => return None,
    };
    val2(uv(&lo), uv(&hi))
}
fn split_even<const O: usize, const I: usize>(op: &str, a: &Args) -> Option<Out>
where
    Uint<I>: Split<Output = Uint<O>>,
{
    let x: Uint<I> = u(ar(a, 0));
    let (lo, hi): (Uint<O>, Uint<O>) = match op {
        "uint.split.split" => x.split::<O>(),
        "uint.split.trait_even" => Split::split(&x),
        _ => return None,
    };
    val2(uv(&lo), uv(&hi))
}

macro_rules! lh_arms {
    ($f:ident, $op:expr, $a:expr, $l:expr, $h:expr, [$(($L:literal, $H:literal, $O:literal)),*]) => {
        match ($l, $h) {
            $( ($L, $H) => $f::<$L, $H, $O>($op, $a), )*
            _ => None,
        }
    };
}
macro_rules! even_arms {
    ($f:ident, $op:expr, $a:expr, $l:expr, [$(($L:literal, $O:literal)),*]) => {
        match $l {
            $( $L => $f::<$L, $O>($op, $a), )*
            _ => None,
        }
    };
}

fn concat_split(op: &str, a: &Args) -> Option<Out> {
    let (l, h) = if op.starts_with("uint.concat") {
        (ar(a, 0).len(), ar(a, 1).len())
    } else {
        let l = sc(a, 1) as usize;
        (l, ar(a, 0).len().wrapping_sub(l))
    };
    match op {
        "uint.concat.concat" | "uint.concat.trait_even" if l == h => even_arms!(
            concat_even, op, a, l,
            [(1, 2), (2, 4), (3, 6), (4, 8), (5, 10), (6, 12), (7, 14), (8, 16), (16, 32)]
        ),
        "uint.split.split" | "uint.split.trait_even" if l == h => even_arms!(
            split_even, op, a, l,
            [(1, 2), (2, 4), (3, 6), (4, 8), (5, 10), (6, 12), (7, 14), (8, 16), (16, 32)]
        ),
        "uint.concat.mixed" | "uint.concat.trait" | "uint.concat.from_tuple" | "uint.concat.from_tuple_ref" => lh_arms!(
            concat_lh, op, a, l, h,
            [(1, 1, 2), (1, 2, 3), (2, 1, 3), (1, 3, 4), (2, 2, 4), (3, 1, 4), (1, 4, 5), (2, 3, 5), (3, 2, 5),
             (4, 1, 5), (1, 5, 6), (2, 4, 6), (3, 3, 6), (4, 2, 6), (5, 1, 6), (1, 6, 7), (2, 5, 7), (3, 4, 7),
             (4, 3, 7), (5, 2, 7), (6, 1, 7), (1, 7, 8), (2, 6, 8), (3, 5, 8), (4, 4, 8), (5, 3, 8), (6, 2, 8),
             (7, 1, 8), (8, 8, 16), (16, 16, 32), (1, 15, 16), (15, 1, 16), (4, 12, 16), (12, 4, 16), (7, 9, 16),
             (9, 7, 16), (5, 11, 16), (11, 5, 16)]
        ),
        "uint.split.mixed" | "uint.split.trait" | "uint.split.into_tuple" => lh_arms!(
            split_lh, op, a, l, h,
            [(1, 1, 2), (1, 2, 3), (2, 1, 3), (1, 3, 4), (2, 2, 4), (3, 1, 4), (1, 4, 5), (2, 3, 5), (3, 2, 5),
             (4, 1, 5), (1, 5, 6), (2, 4, 6), (3, 3, 6), (4, 2, 6), (5, 1, 6), (1, 6, 7), (2, 5, 7), (3, 4, 7),
             (4, 3, 7), (5, 2, 7), (6, 1, 7), (1, 7, 8), (2, 6, 8), (3, 5, 8), (4, 4, 8), (5, 3, 8), (6, 2, 8),
             (7, 1, 8), (8, 8, 16), (16, 16, 32), (1, 15, 16), (15, 1, 16), (4, 12, 16), (12, 4, 16), (7, 9, 16),
             (9, 7, 16), (5, 11, 16), (11, 5, 16)]
        ),
        _ => None,
    }
}

fn resize_nt<const N: usize, const T: usize>(op: &str, a: &Args) -> Option<Out> {
    let x: Uint<N> = u(ar(a, 0));
    match op {
        "uint.resize" => val1(uv(&x.resize::<T>())),
        "uint.resize.from_ref" => val1(uv(&Uint::<T>::from(&x))),
        "int.resize" => val1(iv(&x.as_int().resize::<T>())),
        "int.resize.from_ref" => val1(iv(&Int::<T>::from(&x.as_int()))),
        _ => None,
    }
}
fn resize_n<const N: usize>(op: &str, a: &Args) -> Option<Out> {
    match sc(a, 1) {
        1 => resize_nt::<N, 1>(op, a),
        2 => resize_nt::<N, 2>(op, a),
        3 => resize_nt::<N, 3>(op, a),
        4 => resize_nt::<N, 4>(op, a),
        5 => resize_nt::<N, 5>(op, a),
        6 => resize_nt::<N, 6>(op, a),
        7 => resize_nt::<N, 7>(op, a),
        8 => resize_nt::<N, 8>(op, a),
        16 => resize_nt::<N, 16>(op, a),
        32 => resize_nt::<N, 32>(op, a),
        _ => None,
    }
}

/// ops that need the `Encoding` impl of a concrete alias (U64, U128, ...)
fn uint_enc(op: &str, a: &Args, n: usize) -> Option<Out> {
    for_n!(n, [1, 2, 3, 4, 5, 6, 7, 8, 16, 32], NN, {
        type T = Uint<NN>;
        match op {
            "uint.to_be_bytes.inherent" => { let x: T = u(ar(a, 0)); val1(bo(&x.to_be_bytes())) }
            "uint.to_le_bytes.inherent" => { let x: T = u(ar(a, 0)); val1(bo(&x.to_le_bytes())) }
            "uint.to_be_bytes.trait" => { let x: T = u(ar(a, 0)); val1(bo(Encoding::to_be_bytes(&x).as_ref())) }
            "uint.to_le_bytes.trait" => { let x: T = u(ar(a, 0)); val1(bo(Encoding::to_le_bytes(&x).as_ref())) }
            "uint.serde_ser" => { let x: T = u(ar(a, 0)); val1(bo(&bincode::serialize(&x).unwrap())) }
            "uint.from_be_slice.trait" => {
                let r = <T as Encoding>::Repr::try_from(&by(a, 0)[..]).expect("harness: exact length");
                val1(uv(&<T as Encoding>::from_be_bytes(r)))
            }
            "uint.from_le_slice.trait" => {
                let r = <T as Encoding>::Repr::try_from(&by(a, 0)[..]).expect("harness: exact length");
                val1(uv(&<T as Encoding>::from_le_bytes(r)))
            }
            "nonzero.from_be_bytes" => {
                let r = <T as Encoding>::Repr::try_from(&by(a, 0)[..]).expect("harness: exact length");
                ctopt(NonZero::<T>::from_be_bytes(r), |z| uv(&z.get()))
            }
            "nonzero.from_le_bytes" => {
                let r = <T as Encoding>::Repr::try_from(&by(a, 0)[..]).expect("harness: exact length");
                ctopt(NonZero::<T>::from_le_bytes(r), |z| uv(&z.get()))
            }
            "uint.serde_de" => match bincode::deserialize::<T>(&by(a, 0)) {
                Ok(x) => val1(uv(&x)),
                Err(_) => Some(Out::Err(0)),
            },
            _ => None,
        }
    })
}

/// ops that need the `ArrayEncoding` impl (hybrid-array) of a concrete alias
fn uint_arr(op: &str, a: &Args, n: usize) -> Option<Out> {
    for_n!(n, [1, 2, 3, 4, 6, 7, 8, 16, 32], NN, {
        type T = Uint<NN>;
        match op {
            "uint.to_be_bytes.array" => { let x: T = u(ar(a, 0)); val1(bo(&x.to_be_byte_array())) }
            "uint.to_le_bytes.array" => { let x: T = u(ar(a, 0)); val1(bo(&x.to_le_byte_array())) }
            _ => {
                let arr: ByteArray<T> = Array::try_from(&by(a, 0)[..]).expect("harness: exact length");
                match op {
                    "uint.from_be_slice.array" => val1(uv(&T::from_be_byte_array(arr))),
                    "uint.from_le_slice.array" => val1(uv(&T::from_le_byte_array(arr))),
                    "uint.from_be_slice.array_dec" => val1(uv(&arr.into_uint_be())),
                    "uint.from_le_slice.array_dec" => val1(uv(&arr.into_uint_le())),
                    "nonzero.from_be_bytes.array" => ctopt(NonZero::<T>::from_be_byte_array(arr), |z| uv(&z.get())),
                    "nonzero.from_le_byte_array" => ctopt(NonZero::<T>::from_le_byte_array(arr), |z| uv(&z.get())),
                    _ => None,
                }
            }
        }
    })
}

fn boxed_ops(op: &str, a: &Args) -> Option<Out> {
    match op {
        "boxed.fmt" => fmt_kind(&bx(ar(a, 0)), sc(a, 1)),
        "uint.to_be_bytes.boxed" => val1(bo(&bx(ar(a, 0)).to_be_bytes())),
        "uint.to_le_bytes.boxed" => val1(bo(&bx(ar(a, 0)).to_le_bytes())),
        "boxed.from_be_slice" => match BoxedUint::from_be_slice(&by(a, 0), sc(a, 1) as u32) {
            Ok(x) => val1(bv(&x)),
            Err(e) => derr(e),
        },
        "boxed.from_le_slice" => match BoxedUint::from_le_slice(&by(a, 0), sc(a, 1) as u32) {
            Ok(x) => val1(bv(&x)),
            Err(e) => derr(e),
        },
        "boxed.from_be_hex" => ctopt(BoxedUint::from_be_hex(&st(a, 0), sc(a, 1) as u32), bv),
        "boxed.from_prim" => {
            let v = sc(a, 0);
            val1(bv(&match sc(a, 1) {
                1 => BoxedUint::from(Limb(v)),
                8 => BoxedUint::from(v as u8),
                16 => BoxedUint::from(v as u16),
                32 => BoxedUint::from(v as u32),
                64 => BoxedUint::from(v),
                128 => BoxedUint::from(prim128(a, 0)),
                _ => return None,
            }))
        }
        "boxed.from_vec" => val1(bv(&BoxedUint::from(limbs_of(ar(a, 0))))),
        "boxed.from_vec.words" => val1(bv(&BoxedUint::from(ar(a, 0).to_vec()))),
        "boxed.from_vec.boxed_slice" => val1(bv(&BoxedUint::from(limbs_of(ar(a, 0)).into_boxed_slice()))),
        "boxed.widen" => val1(bv(&bx(ar(a, 0)).widen(sc(a, 1) as u32))),
        "boxed.widen.nonzero" => {
            let nz = NonZero::new(bx(ar(a, 0))).into_option().expect("harness: non-zero operand");
            val1(bv(&nz.widen(sc(a, 1) as u32).get()))
        }
        "boxed.shorten" => val1(bv(&bx(ar(a, 0)).shorten(sc(a, 1) as u32))),
        "uint.words_id.boxed_from_words" => val1(BoxedUint::from_words(ar(a, 0).iter().copied()).to_words().to_vec()),
        "uint.words_id.boxed_as_words" => val1(bx(ar(a, 0)).as_words().to_vec()),
        "uint.words_id.boxed_as_limbs" => val1(lvs(bx(ar(a, 0)).as_limbs())),
        "uint.words_id.boxed_to_limbs" => val1(lvs(&bx(ar(a, 0)).to_limbs())),
        "uint.words_id.boxed_into_limbs" => val1(lvs(&bx(ar(a, 0)).into_limbs())),
        "uint.words_id.boxed_from_slice" => val1(bv(&BoxedUint::from(&limbs_of(ar(a, 0))[..]))),
        "uint.words_id.boxed_from_box" => val1(bv(&BoxedUint::from(limbs_of(ar(a, 0)).into_boxed_slice()))),
        "uint.words_id.boxed_as_mut" => {
            let mut x = bx(ar(a, 0));
            let w = x.as_words_mut().to_vec();
            assert_eq!(w, lvs(x.as_limbs_mut()));
            let r: &[Word] = x.as_ref();
            assert_eq!(w, r.to_vec());
            let r: &[Limb] = x.as_ref();
            assert_eq!(w, lvs(r));
            let r: &mut [Word] = x.as_mut();
            assert_eq!(w, r.to_vec());
            let r: &mut [Limb] = x.as_mut();
            assert_eq!(w, lvs(r));
            assert_eq!(x.nlimbs(), w.len());
            val1(w)
        }
        _ => None,
    }
}

pub fn run(op: &str, a: &Args) -> Option<Out> {
    if !OPS.contains(&op) {
        return None;
    }
    if op.starts_with("limb.") {
        return limb_ops(op, a);
    }
    if op.starts_with("boxed.") || op.contains(".boxed") && !op.starts_with("uint.words_id.boxed_from_uint") && op != "uint.words_id.boxed_from_odd" {
        return boxed_ops(op, a);
    }
    if op.starts_with("uint.concat") || op.starts_with("uint.split") {
        return concat_split(op, a);
    }
    if op.starts_with("uint.resize") || op.starts_with("int.resize") {
        return with_n!(ar(a, 0).len(), [1, 2, 3, 4, 5, 6, 7, 8, 16, 32], resize_n, op, a);
    }
    match op {
        "uint.to_prim" => {
            return match ar(a, 0).len() {
                1 => val1(vec![u64::from(u::<1>(ar(a, 0)))]),
                2 => val1(w128(u128::from(u::<2>(ar(a, 0))))),
                _ => None,
            };
        }
        "uint.to_prim.int" => {
            return match ar(a, 0).len() {
                1 => val1(vec![i64::from(si::<1>(ar(a, 0))) as u64]),
                2 => val1(w128(i128::from(si::<2>(ar(a, 0))) as u128)),
                _ => None,
            };
        }
        _ => {}
    }
    // decoders: the target limb count is the scalar argument 1 (or 2 for the primitive constructors)
    match op {
        "uint.from_be_slice" | "uint.from_le_slice" | "uint.from_be_hex" | "uint.from_be_hex.int" | "uint.from_le_hex"
        | "odd.from_be_hex" | "odd.from_le_hex" => {
            return with_n!(sc(a, 1) as usize, [1, 2, 3, 4, 5, 6, 7, 8, 16, 32], uint_gen, op, a);
        }
        "uint.from_prim" | "uint.from_prim.from" | "int.from_prim" | "int.from_prim.from" => {
            return with_n!(sc(a, 2) as usize, [1, 2, 3, 4, 5, 6, 7, 8, 16, 32], uint_gen, op, a);
        }
        "uint.from_be_slice.trait" | "uint.from_le_slice.trait" | "nonzero.from_be_bytes" | "nonzero.from_le_bytes"
        | "uint.serde_de" => return uint_enc(op, a, sc(a, 1) as usize),
        "uint.from_be_slice.array" | "uint.from_le_slice.array" | "uint.from_be_slice.array_dec"
        | "uint.from_le_slice.array_dec" | "nonzero.from_be_bytes.array" | "nonzero.from_le_byte_array" => {
            return uint_arr(op, a, sc(a, 1) as usize);
        }
        "uint.to_be_bytes.array" | "uint.to_le_bytes.array" => return uint_arr(op, a, ar(a, 0).len()),
        "uint.to_be_bytes.inherent" | "uint.to_le_bytes.inherent" | "uint.to_be_bytes.trait" | "uint.to_le_bytes.trait"
        | "uint.serde_ser" => return uint_enc(op, a, ar(a, 0).len()),
        _ => {}
    }
    with_n!(ar(a, 0).len(), [1, 2, 3, 4, 5, 6, 7, 8, 16, 32], uint_val, op, a)
}
