//! C13 adapters: signed integers `Int<N>` — add / sub / neg / mul / squares / sign / resize / From,
//! through every public route (inherent, trait, operators by value / reference / assigning,
//! `Wrapping<Int>`, `Checked<Int>`), fixed widths 1, 2, 3, 4, 8, 16 limbs and mixed widths.
use crate::util::*;
use crypto_bigint::{
    Checked, CheckedAdd, CheckedMul, CheckedSub, ConstChoice, Int, Uint, Wrapping, WrappingAdd,
    WrappingSub,
};

pub const OPS: &[&str] = &[
    "sint.abs",
    "sint.abs_sign",
    "sint.add",
    "sint.add.assign",
    "sint.add.assign_ref",
    "sint.add.ref",
    "sint.checked_add",
    "sint.checked_add.trait",
    "sint.consts",
    "sint.consts.masks",
    "sint.consts.traits",
    "sint.checked_add.wrapper",
    "sint.checked_add.wrapper_assign",
    "sint.checked_add.wrapper_assign_ref",
    "sint.checked_add.wrapper_rr",
    "sint.checked_add.wrapper_rv",
    "sint.checked_add.wrapper_vr",
    "sint.checked_expr",
    "sint.checked_mul",
    "sint.checked_mul.wrapper",
    "sint.checked_mul.wrapper_assign",
    "sint.checked_mul.wrapper_assign_ref",
    "sint.checked_mul.wrapper_rr",
    "sint.checked_mul.wrapper_rv",
    "sint.checked_mul.wrapper_vr",
    "sint.checked_mul_uint",
    "sint.checked_mul_uint_right",
    "sint.checked_neg",
    "sint.checked_square",
    "sint.checked_sub",
    "sint.checked_sub.wrapper",
    "sint.checked_sub.wrapper_assign",
    "sint.checked_sub.wrapper_assign_ref",
    "sint.checked_sub.wrapper_rr",
    "sint.checked_sub.wrapper_rv",
    "sint.checked_sub.wrapper_vr",
    "sint.from_i128",
    "sint.from_i128_trait",
    "sint.from_i16",
    "sint.from_i16.trait",
    "sint.from_i32",
    "sint.from_i32.trait",
    "sint.from_i64",
    "sint.from_i64.trait",
    "sint.from_i8",
    "sint.from_i8.trait",
    "sint.is_max",
    "sint.is_min",
    "sint.is_negative",
    "sint.is_positive",
    "sint.mul",
    "sint.mul.rr",
    "sint.mul.rv",
    "sint.mul.vr",
    "sint.mul_uint",
    "sint.mul_uint.rr",
    "sint.mul_uint.rv",
    "sint.mul_uint.vr",
    "sint.new_from_abs_sign",
    "sint.overflowing_add",
    "sint.overflowing_neg",
    "sint.resize",
    "sint.resize.from_ref",
    "sint.saturating_square",
    "sint.split_mul",
    "sint.split_mul_uint",
    "sint.split_mul_uint_right",
    "sint.sub",
    "sint.sub.ref",
    "sint.to_prim",
    "sint.widening_mul",
    "sint.widening_mul_uint",
    "sint.widening_square",
    "sint.wrapping_add",
    "sint.wrapping_add.trait",
    "sint.wrapping_add.wrapper",
    "sint.wrapping_add.wrapper_assign",
    "sint.wrapping_add.wrapper_assign_ref",
    "sint.wrapping_add.wrapper_rr",
    "sint.wrapping_add.wrapper_rv",
    "sint.wrapping_add.wrapper_vr",
    "sint.wrapping_neg",
    "sint.wrapping_neg_if",
    "sint.wrapping_square",
    "sint.wrapping_sub",
    "sint.wrapping_sub.wrapper",
    "sint.wrapping_sub.wrapper_assign",
    "sint.wrapping_sub.wrapper_assign_ref",
    "sint.wrapping_sub.wrapper_rr",
    "sint.wrapping_sub.wrapper_rv",
    "sint.wrapping_sub.wrapper_vr",
];

/// Two-level const-generic dispatch over (limbs of arg 0, limbs of arg 1 / target width).
macro_rules! with_lr {
    ($l:expr, $r:expr, $f:ident, $op:expr, $a:expr) => {
        match $l {
            1 => with_lr!(@r 1, $r, $f, $op, $a),
            2 => with_lr!(@r 2, $r, $f, $op, $a),
            3 => with_lr!(@r 3, $r, $f, $op, $a),
            4 => with_lr!(@r 4, $r, $f, $op, $a),
            8 => with_lr!(@r 8, $r, $f, $op, $a),
            16 => with_lr!(@r 16, $r, $f, $op, $a),
            _ => None,
        }
    };
    (@r $L:literal, $r:expr, $f:ident, $op:expr, $a:expr) => {
        match $r {
            1 => $f::<$L, 1>($op, $a),
            2 => $f::<$L, 2>($op, $a),
            3 => $f::<$L, 3>($op, $a),
            4 => $f::<$L, 4>($op, $a),
            8 => $f::<$L, 8>($op, $a),
            16 => $f::<$L, 16>($op, $a),
            _ => None,
        }
    };
}

fn iopt<const N: usize>(o: subtle::CtOption<Int<N>>) -> Option<Out> {
    ctopt(o, iv)
}
fn icopt<const N: usize>(o: crypto_bigint::ConstCtOption<Int<N>>) -> Option<Out> {
    cctopt(o, iv)
}

fn chk<const N: usize>(op: u64, x: Checked<Int<N>>, y: Checked<Int<N>>, form: u64) -> Checked<Int<N>> {
    match (op, form % 4) {
        (0, 0) => x + y,
        (0, 1) => x + &y,
        (0, 2) => &x + y,
        (0, _) => &x + &y,
        (1, 0) => x - y,
        (1, 1) => x - &y,
        (1, 2) => &x - y,
        (1, _) => &x - &y,
        (_, 0) => x * y,
        (_, 1) => x * &y,
        (_, 2) => &x * y,
        (_, _) => &x * &y,
    }
}

/// unary forms and same-width binary forms
fn same<const N: usize>(op: &str, a: &Args) -> Option<Out> {
    let x: Int<N> = si(ar(a, 0));
    match op {
        "sint.overflowing_neg" => { let (r, c) = x.overflowing_neg(); return val2(iv(&r), cc(c)); }
        "sint.wrapping_neg" => return val1(iv(&x.wrapping_neg())),
        "sint.checked_neg" => return icopt(x.checked_neg()),
        "sint.wrapping_neg_if" => return val1(iv(&x.wrapping_neg_if(cchoice(sc(a, 1))))),
        "sint.abs_sign" => { let (m, s) = x.abs_sign(); return val2(uv(&m), cc(s)); }
        "sint.abs" => return val1(uv(&x.abs())),
        "sint.is_negative" => return val1(cc(x.is_negative())),
        "sint.is_positive" => return val1(cc(x.is_positive())),
        "sint.is_min" => return val1(cc(x.is_min())),
        "sint.is_max" => return val1(cc(x.is_max())),
        "sint.checked_square" => return cctopt(x.checked_square(), uv),
        "sint.wrapping_square" => return val1(uv(&x.wrapping_square())),
        "sint.saturating_square" => return val1(uv(&x.saturating_square())),
        "sint.new_from_abs_sign" => {
            let m: Uint<N> = u(ar(a, 0));
            return icopt(Int::new_from_abs_sign(m, cchoice(sc(a, 1))));
        }
        _ => {}
    }
    let y: Int<N> = si(ar(a, 1));
    match op {
        "sint.checked_add" => icopt(x.checked_add(&y)),
        "sint.checked_add.trait" => iopt(CheckedAdd::checked_add(&x, &y)),
        "sint.checked_add.wrapper" => iopt((Checked::new(x) + Checked::new(y)).0),
        "sint.checked_add.wrapper_vr" => iopt((Checked::new(x) + &Checked::new(y)).0),
        "sint.checked_add.wrapper_rv" => iopt((&Checked::new(x) + Checked::new(y)).0),
        "sint.checked_add.wrapper_rr" => iopt((&Checked::new(x) + &Checked::new(y)).0),
        "sint.checked_add.wrapper_assign" => { let mut w = Checked::new(x); w += Checked::new(y); iopt(w.0) }
        "sint.checked_add.wrapper_assign_ref" => { let mut w = Checked::new(x); w += &Checked::new(y); iopt(w.0) }
        "sint.overflowing_add" => { let (r, c) = x.overflowing_add(&y); val2(iv(&r), cc(c)) }
        "sint.wrapping_add" => val1(iv(&x.wrapping_add(&y))),
        "sint.wrapping_add.trait" => val1(iv(&WrappingAdd::wrapping_add(&x, &y))),
        "sint.wrapping_add.wrapper" => val1(iv(&(Wrapping(x) + Wrapping(y)).0)),
        "sint.wrapping_add.wrapper_vr" => val1(iv(&(Wrapping(x) + &Wrapping(y)).0)),
        "sint.wrapping_add.wrapper_rv" => val1(iv(&(&Wrapping(x) + Wrapping(y)).0)),
        "sint.wrapping_add.wrapper_rr" => val1(iv(&(&Wrapping(x) + &Wrapping(y)).0)),
        "sint.wrapping_add.wrapper_assign" => { let mut w = Wrapping(x); w += Wrapping(y); val1(iv(&w.0)) }
        "sint.wrapping_add.wrapper_assign_ref" => { let mut w = Wrapping(x); w += &Wrapping(y); val1(iv(&w.0)) }
        "sint.add" => val1(iv(&(x + y))),
        "sint.add.ref" => val1(iv(&(x + &y))),
        "sint.add.assign" => { let mut r = x; r += y; val1(iv(&r)) }
        "sint.add.assign_ref" => { let mut r = x; r += &y; val1(iv(&r)) }
        "sint.checked_sub" => iopt(CheckedSub::checked_sub(&x, &y)),
        "sint.checked_sub.wrapper" => iopt((Checked::new(x) - Checked::new(y)).0),
        "sint.checked_sub.wrapper_vr" => iopt((Checked::new(x) - &Checked::new(y)).0),
        "sint.checked_sub.wrapper_rv" => iopt((&Checked::new(x) - Checked::new(y)).0),
        "sint.checked_sub.wrapper_rr" => iopt((&Checked::new(x) - &Checked::new(y)).0),
        "sint.checked_sub.wrapper_assign" => { let mut w = Checked::new(x); w -= Checked::new(y); iopt(w.0) }
        "sint.checked_sub.wrapper_assign_ref" => { let mut w = Checked::new(x); w -= &Checked::new(y); iopt(w.0) }
        "sint.wrapping_sub" => val1(iv(&WrappingSub::wrapping_sub(&x, &y))),
        "sint.wrapping_sub.wrapper" => val1(iv(&(Wrapping(x) - Wrapping(y)).0)),
        "sint.wrapping_sub.wrapper_vr" => val1(iv(&(Wrapping(x) - &Wrapping(y)).0)),
        "sint.wrapping_sub.wrapper_rv" => val1(iv(&(&Wrapping(x) - Wrapping(y)).0)),
        "sint.wrapping_sub.wrapper_rr" => val1(iv(&(&Wrapping(x) - &Wrapping(y)).0)),
        "sint.wrapping_sub.wrapper_assign" => { let mut w = Wrapping(x); w -= Wrapping(y); val1(iv(&w.0)) }
        "sint.wrapping_sub.wrapper_assign_ref" => { let mut w = Wrapping(x); w -= &Wrapping(y); val1(iv(&w.0)) }
        "sint.sub" => val1(iv(&(x - y))),
        "sint.sub.ref" => val1(iv(&(x - &y))),
        "sint.checked_mul.wrapper" => iopt((Checked::new(x) * Checked::new(y)).0),
        "sint.checked_mul.wrapper_vr" => iopt((Checked::new(x) * &Checked::new(y)).0),
        "sint.checked_mul.wrapper_rv" => iopt((&Checked::new(x) * Checked::new(y)).0),
        "sint.checked_mul.wrapper_rr" => iopt((&Checked::new(x) * &Checked::new(y)).0),
        "sint.checked_mul.wrapper_assign" => { let mut w = Checked::new(x); w *= Checked::new(y); iopt(w.0) }
        "sint.checked_mul.wrapper_assign_ref" => { let mut w = Checked::new(x); w *= &Checked::new(y); iopt(w.0) }
        "sint.checked_expr" => {
            let z: Int<N> = si(ar(a, 2));
            let f = sc(a, 5);
            if sc(a, 6) == 0 {
                let s1 = chk(sc(a, 3), Checked::new(x), Checked::new(y), f);
                let s2 = chk(sc(a, 4), s1, Checked::new(z), f / 4);
                iopt(s2.0)
            } else {
                let s1 = chk(sc(a, 3), Checked::new(y), Checked::new(z), f);
                let s2 = chk(sc(a, 4), Checked::new(x), s1, f / 4);
                iopt(s2.0)
            }
        }
        _ => None,
    }
}

/// mixed-width multiplication forms: Int<L> x Int<R>, Int<L> x Uint<R>
fn mixed<const L: usize, const R: usize>(op: &str, a: &Args) -> Option<Out> {
    let x: Int<L> = si(ar(a, 0));
    if op.contains("_uint") {
        let y: Uint<R> = u(ar(a, 1));
        return match op {
            "sint.split_mul_uint" => { let (lo, hi, c) = x.split_mul_uint(&y); Some(Out::Val(vec![uv(&lo), uv(&hi), cc(c)])) }
            "sint.split_mul_uint_right" => { let (lo, hi, c) = x.split_mul_uint_right(&y); Some(Out::Val(vec![uv(&lo), uv(&hi), cc(c)])) }
            "sint.checked_mul_uint" => iopt(CheckedMul::checked_mul(&x, &y)),
            "sint.checked_mul_uint_right" => iopt(x.checked_mul_uint_right(&y)),
            "sint.mul_uint" => val1(iv(&(x * y))),
            "sint.mul_uint.vr" => val1(iv(&(x * &y))),
            "sint.mul_uint.rv" => val1(iv(&(&x * y))),
            "sint.mul_uint.rr" => val1(iv(&(&x * &y))),
            _ => None,
        };
    }
    let y: Int<R> = si(ar(a, 1));
    match op {
        "sint.split_mul" => { let (lo, hi, c) = x.split_mul(&y); Some(Out::Val(vec![uv(&lo), uv(&hi), cc(c)])) }
        "sint.checked_mul" => iopt(CheckedMul::checked_mul(&x, &y)),
        "sint.mul" => val1(iv(&(x * y))),
        "sint.mul.vr" => val1(iv(&(x * &y))),
        "sint.mul.rv" => val1(iv(&(&x * y))),
        "sint.mul.rr" => val1(iv(&(&x * &y))),
        _ => None,
    }
}

/// resize / From<&Int<L>> : Int<L> -> Int<T>
fn resize<const L: usize, const T: usize>(op: &str, a: &Args) -> Option<Out> {
    let x: Int<L> = si(ar(a, 0));
    match op {
        "sint.resize" => val1(iv(&x.resize::<T>())),
        "sint.resize.from_ref" => val1(iv(&Int::<T>::from(&x))),
        _ => None,
    }
}

/// widening forms need the ConcatMixed instance: explicit (L, R, L + R) table
fn widening(op: &str, a: &Args) -> Option<Out> {
    let (l, r) = (ar(a, 0).len(), ar(a, 1).len());
    macro_rules! wide {
        ($(($L:literal, $R:literal, $W:literal)),*) => {
            match (l, r) {
                $( ($L, $R) => {
                    let x: Int<$L> = si(ar(a, 0));
                    match op {
                        "sint.widening_mul" => { let y: Int<$R> = si(ar(a, 1)); val1(iv(&x.widening_mul::<$R, $W>(&y))) }
                        "sint.widening_mul_uint" => { let y: Uint<$R> = u(ar(a, 1)); val1(iv(&x.widening_mul_uint::<$R, $W>(&y))) }
                        _ => None,
                    }
                } )*
                _ => None,
            }
        };
    }
    wide!(
        (1, 1, 2), (2, 2, 4), (3, 3, 6), (4, 4, 8), (8, 8, 16), (16, 16, 32),
        (1, 2, 3), (2, 1, 3), (1, 3, 4), (3, 1, 4), (2, 3, 5), (3, 2, 5), (2, 4, 6), (4, 2, 6),
        (3, 4, 7), (4, 3, 7), (1, 4, 5), (4, 1, 5), (1, 8, 9), (8, 1, 9), (4, 8, 12), (8, 4, 12),
        (3, 8, 11), (8, 3, 11), (2, 8, 10), (8, 2, 10)
    )
}

fn widening_square(a: &Args) -> Option<Out> {
    macro_rules! sq {
        ($(($L:literal, $W:literal)),*) => {
            match ar(a, 0).len() {
                $( $L => { let x: Int<$L> = si(ar(a, 0)); val1(uv(&x.widening_square::<$W>())) } )*
                _ => None,
            }
        };
    }
    sq!((1, 2), (2, 4), (3, 6), (4, 8), (8, 16), (16, 32))
}

/// From primitives: args = [bit pattern of the primitive (one word; two for i128)], [target limbs]
fn from_prim<const T: usize>(op: &str, a: &Args) -> Option<Out> {
    let w = sc(a, 0);
    let wide = (w as u128) | ((ar(a, 0).get(1).copied().unwrap_or(0) as u128) << 64);
    match op {
        "sint.from_i8" => val1(iv(&Int::<T>::from_i8(w as u8 as i8))),
        "sint.from_i8.trait" => val1(iv(&Int::<T>::from(w as u8 as i8))),
        "sint.from_i16" => val1(iv(&Int::<T>::from_i16(w as u16 as i16))),
        "sint.from_i16.trait" => val1(iv(&Int::<T>::from(w as u16 as i16))),
        "sint.from_i32" => val1(iv(&Int::<T>::from_i32(w as u32 as i32))),
        "sint.from_i32.trait" => val1(iv(&Int::<T>::from(w as u32 as i32))),
        "sint.from_i64" => val1(iv(&Int::<T>::from_i64(w as i64))),
        "sint.from_i64.trait" => val1(iv(&Int::<T>::from(w as i64))),
        "sint.from_i128" => val1(iv(&Int::<T>::from_i128(wide as i128))),
        "sint.from_i128_trait" => val1(iv(&Int::<T>::from(wide as i128))),
        _ => None,
    }
}

/// the associated constants, through the inherent consts, the mask aliases and the traits
fn consts<const N: usize>(op: &str, _a: &Args) -> Option<Out> {
    use crypto_bigint::{Constants, ConstZero};
    let v = match op {
        "sint.consts" => vec![Int::<N>::ZERO, Int::<N>::ONE, Int::<N>::MINUS_ONE, Int::<N>::MIN, Int::<N>::MAX],
        "sint.consts.masks" => vec![Int::<N>::default(), Int::<N>::ONE, Int::<N>::FULL_MASK, Int::<N>::SIGN_MASK, Int::<N>::MAX],
        "sint.consts.traits" => vec![
            <Int<N> as ConstZero>::ZERO,
            <Int<N> as num_traits::One>::one(),
            Int::<N>::MINUS_ONE,
            Int::<N>::MIN,
            <Int<N> as Constants>::MAX,
        ],
        _ => return None,
    };
    Some(Out::Val(v.iter().map(iv).collect()))
}

fn to_prim(a: &Args) -> Option<Out> {
    match ar(a, 0).len() {
        1 => { let x: Int<1> = si(ar(a, 0)); val1(vec![i64::from(x) as u64]) }
        2 => {
            let x: Int<2> = si(ar(a, 0));
            let v = i128::from(x) as u128;
            val1(vec![v as u64, (v >> 64) as u64])
        }
        _ => None,
    }
}

pub fn run(op: &str, a: &Args) -> Option<Out> {
    if !OPS.contains(&op) {
        return None;
    }
    let base = op.split('.').take(2).collect::<Vec<_>>().join(".");
    match base.as_str() {
        "sint.widening_mul" | "sint.widening_mul_uint" => widening(&base, a),
        "sint.widening_square" => widening_square(a),
        "sint.split_mul" | "sint.split_mul_uint" | "sint.split_mul_uint_right" | "sint.checked_mul_uint"
        | "sint.checked_mul_uint_right" | "sint.mul" | "sint.mul_uint" => {
            with_lr!(ar(a, 0).len(), ar(a, 1).len(), mixed, op, a)
        }
        "sint.checked_mul" if !op.contains(".wrapper") => with_lr!(ar(a, 0).len(), ar(a, 1).len(), mixed, op, a),
        "sint.resize" => with_lr!(ar(a, 0).len(), sc(a, 1) as usize, resize, op, a),
        "sint.to_prim" => to_prim(a),
        "sint.consts" => with_n!(sc(a, 0) as usize, [1, 2, 3, 4, 8, 16], consts, op, a),
        _ if base.starts_with("sint.from_i") => with_n!(sc(a, 1) as usize, [1, 2, 3, 4, 8, 16], from_prim, op, a),
        _ => with_n!(ar(a, 0).len(), [1, 2, 3, 4, 8, 16], same, op, a),
    }
}
