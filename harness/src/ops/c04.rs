//! C04 adapters: add / sub / neg on Limb, Uint<N>, BoxedUint, Wrapping, Checked.
use crate::util::*;
use crypto_bigint::{
    BoxedUint, Checked, CheckedAdd, CheckedSub, ConstChoice, Limb, Uint, Wrapping, WrappingAdd,
    WrappingNeg, WrappingSub,
};

pub const OPS: &[&str] = &[
    "boxed.adc",
    "boxed.adc_assign",
    "boxed.add",
    "boxed.add.rr",
    "boxed.add.rv",
    "boxed.add.vr",
    "boxed.add_assign",
    "boxed.add_assign.prim",
    "boxed.add_assign.prim_asg",
    "boxed.add_assign.prim_ref",
    "boxed.add_assign.prim_val",
    "boxed.add_assign.ref",
    "boxed.add_assign.uint",
    "boxed.add_assign.uint_op",
    "boxed.add_assign.uint_op_ref",
    "boxed.add_assign.uint_ref",
    "boxed.checked_add",
    "boxed.checked_sub",
    "boxed.sbb",
    "boxed.sbb_assign",
    "boxed.sub",
    "boxed.sub.rr",
    "boxed.sub.rv",
    "boxed.sub.vr",
    "boxed.sub_assign",
    "boxed.sub_assign.prim",
    "boxed.sub_assign.prim_asg",
    "boxed.sub_assign.prim_ref",
    "boxed.sub_assign.prim_val",
    "boxed.sub_assign.ref",
    "boxed.sub_assign.uint",
    "boxed.sub_assign.uint_op",
    "boxed.sub_assign.uint_op_ref",
    "boxed.sub_assign.uint_ref",
    "boxed.wrapping_add",
    "boxed.wrapping_add.trait",
    "boxed.wrapping_add.wrapper",
    "boxed.wrapping_add_assign",
    "boxed.wrapping_add_assign.ref",
    "boxed.wrapping_neg",
    "boxed.wrapping_neg.trait",
    "boxed.wrapping_sub",
    "boxed.wrapping_sub.trait",
    "boxed.wrapping_sub.wrapper",
    "boxed.wrapping_sub_assign",
    "boxed.wrapping_sub_assign.ref",
    "limb.adc",
    "limb.add",
    "limb.checked_add",
    "limb.checked_add.wrapper",
    "limb.checked_sub",
    "limb.checked_sub.wrapper",
    "limb.mac",
    "limb.overflowing_add",
    "limb.saturating_add",
    "limb.saturating_sub",
    "limb.sbb",
    "limb.sub",
    "limb.sub.ref",
    "limb.wrapping_add",
    "limb.wrapping_add.trait",
    "limb.wrapping_add.wrapper",
    "limb.wrapping_add.wrapper_assign",
    "limb.wrapping_neg",
    "limb.wrapping_neg.trait",
    "limb.wrapping_sub",
    "limb.wrapping_sub.trait",
    "limb.wrapping_sub.wrapper",
    "limb.wrapping_sub.wrapper_assign",
    "uint.adc",
    "uint.add",
    "uint.add.assign",
    "uint.add.assign_ref",
    "uint.add.ref",
    "uint.carrying_neg",
    "uint.checked_add",
    "uint.checked_add.wrapper",
    "uint.checked_add.wrapper_assign",
    "uint.checked_expr",
    "uint.checked_sub",
    "uint.checked_sub.wrapper",
    "uint.checked_sub.wrapper_assign",
    "uint.saturating_add",
    "uint.saturating_sub",
    "uint.sbb",
    "uint.sub",
    "uint.sub.assign",
    "uint.sub.assign_ref",
    "uint.sub.ref",
    "uint.wrapping_add",
    "uint.wrapping_add.trait",
    "uint.wrapping_add.wrapper",
    "uint.wrapping_add.wrapper_assign",
    "uint.wrapping_add.wrapper_assign_ref",
    "uint.wrapping_add.wrapper_ref",
    "uint.wrapping_neg",
    "uint.wrapping_neg.trait",
    "uint.wrapping_neg.wrapper",
    "uint.wrapping_neg.wrapper_ref",
    "uint.wrapping_neg_if",
    "uint.wrapping_sub",
    "uint.wrapping_sub.trait",
    "uint.wrapping_sub.wrapper",
    "uint.wrapping_sub.wrapper_assign",
    "uint.wrapping_sub.wrapper_assign_ref",
    "uint.wrapping_sub.wrapper_ref",
];

fn limb_ops(op: &str, a: &Args) -> Option<Out> {
    let x = Limb(sc(a, 0));
    let y = Limb(sc(a, 1));
    let z = Limb(sc(a, 2));
    match op {
        "limb.adc" => { let (r, c) = x.adc(y, z); val2(lv(r), lv(c)) }
        "limb.sbb" => { let (r, c) = x.sbb(y, z); val2(lv(r), lv(c)) }
        "limb.overflowing_add" => { let (r, c) = x.overflowing_add(y); val2(lv(r), lv(c)) }
        "limb.mac" => { let (r, c) = x.mac(y, z, Limb(sc(a, 3))); val2(lv(r), lv(c)) }
        "limb.wrapping_add" => val1(lv(x.wrapping_add(y))),
        "limb.wrapping_add.trait" => val1(lv(WrappingAdd::wrapping_add(&x, &y))),
        "limb.wrapping_add.wrapper" => val1(lv((Wrapping(x) + Wrapping(y)).0)),
        "limb.wrapping_add.wrapper_assign" => { let mut w = Wrapping(x); w += Wrapping(y); val1(lv(w.0)) }
        "limb.wrapping_sub" => val1(lv(x.wrapping_sub(y))),
        "limb.wrapping_sub.trait" => val1(lv(WrappingSub::wrapping_sub(&x, &y))),
        "limb.wrapping_sub.wrapper" => val1(lv((Wrapping(x) - Wrapping(y)).0)),
        "limb.wrapping_sub.wrapper_assign" => { let mut w = Wrapping(x); w -= &Wrapping(y); val1(lv(w.0)) }
        "limb.wrapping_neg" => val1(lv(x.wrapping_neg())),
        "limb.wrapping_neg.trait" => val1(lv(WrappingNeg::wrapping_neg(&x))),
        "limb.saturating_add" => val1(lv(x.saturating_add(y))),
        "limb.saturating_sub" => val1(lv(x.saturating_sub(y))),
        "limb.checked_add" => ctopt(x.checked_add(&y), |r| lv(*r)),
        "limb.checked_sub" => ctopt(x.checked_sub(&y), |r| lv(*r)),
        "limb.checked_add.wrapper" => ctopt((Checked::new(x) + Checked::new(y)).0, |r| lv(*r)),
        "limb.checked_sub.wrapper" => ctopt((Checked::new(x) - Checked::new(y)).0, |r| lv(*r)),
        "limb.add" => val1(lv(x + y)),
        "limb.sub" => val1(lv(x - y)),
        "limb.sub.ref" => val1(lv(x - &y)),
        _ => None,
    }
}

fn chk<const N: usize>(op: u64, x: Checked<Uint<N>>, y: Checked<Uint<N>>, form: u64) -> Checked<Uint<N>> {
    match (op, form % 4) {
        (0, 0) => x + y,
        (0, 1) => x + &y,
        (0, 2) => &x + y,
        (0, _) => &x + &y,
        (_, 0) => x - y,
        (_, 1) => x - &y,
        (_, 2) => &x - y,
        (_, _) => &x - &y,
    }
}

fn uint_ops<const N: usize>(op: &str, a: &Args) -> Option<Out> {
    let x: Uint<N> = u(ar(a, 0));
    match op {
        "uint.carrying_neg" => { let (r, c) = x.carrying_neg(); return val2(uv(&r), cc(c)); }
        "uint.wrapping_neg" => return val1(uv(&x.wrapping_neg())),
        "uint.wrapping_neg.trait" => return val1(uv(&WrappingNeg::wrapping_neg(&x))),
        "uint.wrapping_neg.wrapper" => return val1(uv(&(-Wrapping(x)).0)),
        "uint.wrapping_neg.wrapper_ref" => return val1(uv(&(-&Wrapping(x)).0)),
        "uint.wrapping_neg_if" => return val1(uv(&x.wrapping_neg_if(cchoice(sc(a, 1))))),
        _ => {}
    }
    let y: Uint<N> = u(ar(a, 1));
    match op {
        "uint.adc" => { let (r, c) = x.adc(&y, Limb(sc(a, 2))); val2(uv(&r), lv(c)) }
        "uint.sbb" => { let (r, c) = x.sbb(&y, Limb(sc(a, 2))); val2(uv(&r), lv(c)) }
        "uint.wrapping_add" => val1(uv(&x.wrapping_add(&y))),
        "uint.wrapping_add.trait" => val1(uv(&WrappingAdd::wrapping_add(&x, &y))),
        "uint.wrapping_add.wrapper" => val1(uv(&(Wrapping(x) + Wrapping(y)).0)),
        "uint.wrapping_add.wrapper_ref" => val1(uv(&(&Wrapping(x) + &Wrapping(y)).0)),
        "uint.wrapping_add.wrapper_assign" => { let mut w = Wrapping(x); w += Wrapping(y); val1(uv(&w.0)) }
        "uint.wrapping_add.wrapper_assign_ref" => { let mut w = Wrapping(x); w += &Wrapping(y); val1(uv(&w.0)) }
        "uint.wrapping_sub" => val1(uv(&x.wrapping_sub(&y))),
        "uint.wrapping_sub.trait" => val1(uv(&WrappingSub::wrapping_sub(&x, &y))),
        "uint.wrapping_sub.wrapper" => val1(uv(&(Wrapping(x) - Wrapping(y)).0)),
        "uint.wrapping_sub.wrapper_ref" => val1(uv(&(&Wrapping(x) - &Wrapping(y)).0)),
        "uint.wrapping_sub.wrapper_assign" => { let mut w = Wrapping(x); w -= Wrapping(y); val1(uv(&w.0)) }
        "uint.wrapping_sub.wrapper_assign_ref" => { let mut w = Wrapping(x); w -= &Wrapping(y); val1(uv(&w.0)) }
        "uint.saturating_add" => val1(uv(&x.saturating_add(&y))),
        "uint.saturating_sub" => val1(uv(&x.saturating_sub(&y))),
        "uint.checked_add" => ctopt(x.checked_add(&y), uv),
        "uint.checked_sub" => ctopt(x.checked_sub(&y), uv),
        "uint.checked_add.wrapper" => ctopt((Checked::new(x) + Checked::new(y)).0, uv),
        "uint.checked_sub.wrapper" => ctopt((Checked::new(x) - Checked::new(y)).0, uv),
        "uint.checked_add.wrapper_assign" => { let mut w = Checked::new(x); w += Checked::new(y); ctopt(w.0, uv) }
        "uint.checked_sub.wrapper_assign" => { let mut w = Checked::new(x); w -= &Checked::new(y); ctopt(w.0, uv) }
        "uint.checked_expr" => {
            let z: Uint<N> = u(ar(a, 2));
            let f = sc(a, 5);
            if sc(a, 6) == 0 {
                let s1 = chk(sc(a, 3), Checked::new(x), Checked::new(y), f);
                let s2 = chk(sc(a, 4), s1, Checked::new(z), f / 4);
                ctopt(s2.0, uv)
            } else {
                let s1 = chk(sc(a, 3), Checked::new(y), Checked::new(z), f);
                let s2 = chk(sc(a, 4), Checked::new(x), s1, f / 4);
                ctopt(s2.0, uv)
            }
        }
        "uint.add" => val1(uv(&(x + y))),
        "uint.add.ref" => val1(uv(&(x + &y))),
        "uint.add.assign" => { let mut r = x; r += y; val1(uv(&r)) }
        "uint.add.assign_ref" => { let mut r = x; r += &y; val1(uv(&r)) }
        "uint.sub" => val1(uv(&(x - y))),
        "uint.sub.ref" => val1(uv(&(x - &y))),
        "uint.sub.assign" => { let mut r = x; r -= y; val1(uv(&r)) }
        "uint.sub.assign_ref" => { let mut r = x; r -= &y; val1(uv(&r)) }
        _ => None,
    }
}

fn boxed_uint_rhs<const N: usize>(op: &str, a: &Args) -> Option<Out> {
    let x = bx(ar(a, 0));
    let y: Uint<N> = u(ar(a, 1));
    match op {
        "boxed.add_assign.uint" => { let mut r = x; r += y; val1(bv(&r)) }
        "boxed.add_assign.uint_ref" => { let mut r = x; r += &y; val1(bv(&r)) }
        "boxed.add_assign.uint_op" => val1(bv(&(x + y))),
        "boxed.add_assign.uint_op_ref" => val1(bv(&(&x + &y))),
        "boxed.sub_assign.uint" => { let mut r = x; r -= y; val1(bv(&r)) }
        "boxed.sub_assign.uint_ref" => { let mut r = x; r -= &y; val1(bv(&r)) }
        "boxed.sub_assign.uint_op" => val1(bv(&(x - y))),
        "boxed.sub_assign.uint_op_ref" => val1(bv(&(&x - &y))),
        _ => None,
    }
}

fn boxed_ops(op: &str, a: &Args) -> Option<Out> {
    let x = bx(ar(a, 0));
    if op == "boxed.wrapping_neg" { return val1(bv(&x.wrapping_neg())); }
    if op == "boxed.wrapping_neg.trait" { return val1(bv(&WrappingNeg::wrapping_neg(&x))); }
    if op.starts_with("boxed.add_assign.uint") || op.starts_with("boxed.sub_assign.uint") {
        return with_n!(ar(a, 1).len(), [1, 2, 3, 4, 6, 8], boxed_uint_rhs, op, a);
    }
    if op.starts_with("boxed.add_assign.prim") || op.starts_with("boxed.sub_assign.prim") {
        let yv = ar(a, 1);
        let lo = yv.first().copied().unwrap_or(0);
        let wide = (lo as u128) | ((yv.get(1).copied().unwrap_or(0) as u128) << 64);
        let kind = sc(a, 2); // 8,16,32,64,128
        let add = op.starts_with("boxed.add");
        let form = op.rsplit('_').next().unwrap_or("");
        macro_rules! prim {
            ($v:expr) => {
                match (add, form) {
                    (true, "val") => val1(bv(&(x + $v))),
                    (true, "ref") => val1(bv(&(&x + $v))),
                    (true, _) => { let mut r = x; r += $v; val1(bv(&r)) }
                    (false, "val") => val1(bv(&(x - $v))),
                    (false, "ref") => val1(bv(&(&x - $v))),
                    (false, _) => { let mut r = x; r -= $v; val1(bv(&r)) }
                }
            };
        }
        return match kind {
            8 => prim!(lo as u8),
            16 => prim!(lo as u16),
            32 => prim!(lo as u32),
            64 => prim!(lo),
            _ => prim!(wide),
        };
    }
    let y = bx(ar(a, 1));
    match op {
        "boxed.adc" => { let (r, c) = x.adc(&y, Limb(sc(a, 2))); val2(bv(&r), lv(c)) }
        "boxed.sbb" => { let (r, c) = x.sbb(&y, Limb(sc(a, 2))); val2(bv(&r), lv(c)) }
        "boxed.adc_assign" => { let mut r = x; let c = r.adc_assign(&y, Limb(sc(a, 2))); val2(bv(&r), lv(c)) }
        "boxed.sbb_assign" => { let mut r = x; let c = r.sbb_assign(&y, Limb(sc(a, 2))); val2(bv(&r), lv(c)) }
        "boxed.wrapping_add" => val1(bv(&x.wrapping_add(&y))),
        "boxed.wrapping_add.trait" => val1(bv(&WrappingAdd::wrapping_add(&x, &y))),
        "boxed.wrapping_add.wrapper" => val1(bv(&(Wrapping(x) + Wrapping(y)).0)),
        "boxed.wrapping_sub" => val1(bv(&x.wrapping_sub(&y))),
        "boxed.wrapping_sub.trait" => val1(bv(&WrappingSub::wrapping_sub(&x, &y))),
        "boxed.wrapping_sub.wrapper" => val1(bv(&(Wrapping(x) - Wrapping(y)).0)),
        "boxed.wrapping_add_assign" => { let mut w = Wrapping(x); w += Wrapping(y); val1(bv(&w.0)) }
        "boxed.wrapping_add_assign.ref" => { let mut w = Wrapping(x); w += &Wrapping(y); val1(bv(&w.0)) }
        "boxed.wrapping_sub_assign" => { let mut w = Wrapping(x); w -= Wrapping(y); val1(bv(&w.0)) }
        "boxed.wrapping_sub_assign.ref" => { let mut w = Wrapping(x); w -= &Wrapping(y); val1(bv(&w.0)) }
        "boxed.checked_add" => ctopt(x.checked_add(&y), bv),
        "boxed.checked_sub" => ctopt(x.checked_sub(&y), bv),
        "boxed.add" => val1(bv(&(x + y))),
        "boxed.add.vr" => val1(bv(&(x + &y))),
        "boxed.add.rv" => val1(bv(&(&x + y))),
        "boxed.add.rr" => val1(bv(&(&x + &y))),
        "boxed.sub" => val1(bv(&(x - y))),
        "boxed.sub.vr" => val1(bv(&(x - &y))),
        "boxed.sub.rv" => val1(bv(&(&x - y))),
        "boxed.sub.rr" => val1(bv(&(&x - &y))),
        "boxed.add_assign" => { let mut r = x; r += y; val1(bv(&r)) }
        "boxed.add_assign.ref" => { let mut r = x; r += &y; val1(bv(&r)) }
        "boxed.sub_assign" => { let mut r = x; r -= y; val1(bv(&r)) }
        "boxed.sub_assign.ref" => { let mut r = x; r -= &y; val1(bv(&r)) }
        _ => None,
    }
}

pub fn run(op: &str, a: &Args) -> Option<Out> {
    if !OPS.contains(&op) {
        return None;
    }
    if op.starts_with("limb.") {
        limb_ops(op, a)
    } else if op.starts_with("uint.") {
        with_n!(ar(a, 0).len(), [1, 2, 3, 4, 5, 6, 7, 8, 9, 10, 11, 12, 16, 32], uint_ops, op, a)
    } else if op.starts_with("boxed.") {
        boxed_ops(op, a)
    } else {
        None
    }
}
