//! C10 adapters: modular inversion and gcd (safegcd) on Uint<N>, Odd<Uint<N>>, Int<N>, BoxedUint,
//! precomputed inverters and the Montgomery forms.
use crate::util::*;
use crypto_bigint::modular::{
    BoxedMontyForm, BoxedMontyParams, ConstMontyForm, ConstMontyFormInverter, ConstMontyParams, MontyForm, MontyParams,
    SafeGcdInverter,
};
use crypto_bigint::{
    impl_modulus, BoxedUint, Gcd, Int, InvMod, Invert, Inverter, NonZero, Odd, PrecomputeInverter, Uint, U1024, U128, U256,
    U64,
};

pub const OPS: &[&str] = &[
    "uint.inv_odd_mod", "uint.inv_odd_mod.inverter", "uint.inv_odd_mod.new_inv",
    "uint.inv_odd_mod_vartime.inverter", "uint.inv_odd_mod_vartime.new_inv",
    "uint.inv_adj", "uint.inv_adj_vartime",
    "uint.inv_mod", "uint.inv_mod.trait", "uint.inv_is_some", "uint.inv_odd_is_some", "boxed.inv_is_some",
    "boxed.inv_odd_is_some", "int.inv_is_some", "int.inv_odd_is_some",
    "uint.inv_mod2k", "uint.inv_mod2k_vartime", "uint.inv_mod2k_full64", "uint.inv_mod2k_full64.new",
    "uint.gcd", "uint.gcd.trait", "uint.gcd_vartime", "odd.gcd_vartime",
    "uint.safegcd_converged", "uint.gcd_converged",
    "int.inv_odd_mod", "int.inv_mod", "int.gcd", "int.gcd_vartime", "int.gcd_uint", "int.gcd_uint_vartime",
    "uint.gcd_int", "uint.gcd_int_vartime",
    "boxed.inv_odd_mod", "boxed.inv_odd_mod.inverter", "boxed.inv_odd_mod_vartime.inverter",
    "boxed.inv_mod", "boxed.inv_mod.trait", "boxed.inv_mod2k", "boxed.inv_mod2k_vartime", "boxed.inv_mod2k_full64",
    "boxed.inv_mod2k_full64.new",
    "boxed.gcd", "boxed.gcd_vartime", "boxed_odd.gcd", "boxed_odd.gcd_vartime",
    "boxed.safegcd_converged", "boxed.gcd_converged",
    "monty.inv", "monty.inv.invert", "monty.inv.inverter", "monty.inv_vartime", "monty.inv_vartime.invert",
    "monty.inv_vartime.inverter",
    "constmonty.inv", "constmonty.inv.invert", "constmonty.inv.inverter", "constmonty.inv.inverter_trait",
    "constmonty.inv_vartime", "constmonty.inv_vartime.invert", "constmonty.inv_vartime.inverter",
    "constmonty.inv_vartime.inverter_trait",
    "boxedmonty.inv", "boxedmonty.inv.trait", "boxedmonty.inv.inverter", "boxedmonty.inv_vartime",
    "boxedmonty.inv_vartime.trait", "boxedmonty.inv_vartime.inverter",
];

fn odd<const N: usize>(v: &[u64]) -> Odd<Uint<N>> {
    Option::from(Odd::new(u::<N>(v))).expect("harness: even modulus")
}
fn bodd(v: &[u64]) -> Odd<BoxedUint> {
    Option::from(Odd::new(bx(v))).expect("harness: even modulus")
}
fn opt_u<const N: usize>(o: Option<Uint<N>>) -> Option<Out> {
    match o {
        Some(x) => val1(uv(&x)),
        None => Some(Out::None),
    }
}
fn opt_b(o: Option<BoxedUint>) -> Option<Out> {
    match o {
        Some(x) => val1(bv(&x)),
        None => Some(Out::None),
    }
}
/// `mod_neg_inv` is a private field of the Montgomery parameters; it is visible through the derived `Debug`.
fn neg_inv_from_debug(s: &str) -> Vec<u64> {
    let key = "mod_neg_inv: Limb(0x";
    let i = s.find(key).expect("harness: mod_neg_inv not in Debug output") + key.len();
    let hex: String = s[i..].chars().take_while(|c| c.is_ascii_hexdigit()).collect();
    let v = u64::from_str_radix(&hex, 16).expect("harness: bad hex");
    vec![0u64.wrapping_sub(v)]
}

fn uint_ops<const N: usize, const U: usize>(op: &str, a: &Args) -> Option<Out>
where
    Odd<Uint<N>>: PrecomputeInverter<Inverter = SafeGcdInverter<N, U>, Output = Uint<N>>,
{
    let x: Uint<N> = u(ar(a, 0));
    match op {
        "uint.inv_mod2k" => return cctopt(x.inv_mod2k(sc(a, 1) as u32), uv),
        "uint.inv_mod2k_vartime" => return cctopt(x.inv_mod2k_vartime(sc(a, 1) as u32), uv),
        "uint.inv_mod2k_full64" => {
            let p = MontyParams::new_vartime(odd::<N>(ar(a, 0)));
            return val1(neg_inv_from_debug(&format!("{:?}", p)));
        }
        _ => {}
    }
    let y: Uint<N> = u(ar(a, 1));
    match op {
        "uint.inv_mod" => return cctopt(x.inv_mod(&y), uv),
        "uint.inv_mod.trait" => return ctopt(InvMod::inv_mod(&x, &y), uv),
        "uint.inv_is_some" => return val1(bl(bool::from(x.inv_mod(&y).is_some()))),
        "int.inv_is_some" => {
            let nz: NonZero<Uint<N>> = Option::from(NonZero::new(y)).expect("harness: zero modulus");
            return val1(bl(bool::from(InvMod::inv_mod(&x.as_int(), &nz).is_some())));
        }
        "uint.gcd" => return val1(uv(&x.gcd(&y))),
        "uint.gcd.trait" => return val1(uv(&Gcd::gcd(&x, &y))),
        "uint.gcd_vartime" => return val1(uv(&Gcd::gcd_vartime(&x, &y))),
        "odd.gcd_vartime" => return val1(uv(&odd::<N>(ar(a, 0)).gcd_vartime(&y))),
        "uint.gcd_converged" => {
            // the constant-time loop ends with debug_assert!(g == 0)
            let _ = x.gcd(&y);
            return val1(bl(true));
        }
        "uint.safegcd_converged" => {
            // (f, g) = (args 0, 1): the fixed-count loop (debug_assert!(g == 0) in debug builds) must agree
            // with the loop that runs until g = 0
            let inv = SafeGcdInverter::<N, U>::new(&odd::<N>(ar(a, 0)), &Uint::ONE);
            let c: Option<Uint<N>> = inv.inv(&y).into();
            let v: Option<Uint<N>> = inv.inv_vartime(&y).into();
            return val1(bl(c == v));
        }
        "int.gcd" => return val1(uv(&Gcd::gcd(&x.as_int(), &y.as_int()))),
        "int.gcd_vartime" => return val1(uv(&Gcd::gcd_vartime(&x.as_int(), &y.as_int()))),
        "int.gcd_uint" => return val1(uv(&Gcd::gcd(&x.as_int(), &y))),
        "int.gcd_uint_vartime" => return val1(uv(&Gcd::gcd_vartime(&x.as_int(), &y))),
        "uint.gcd_int" => return val1(uv(&<Uint<N> as Gcd<Int<N>>>::gcd(&x, &y.as_int()))),
        "uint.gcd_int_vartime" => return val1(uv(&<Uint<N> as Gcd<Int<N>>>::gcd_vartime(&x, &y.as_int()))),
        "int.inv_mod" => {
            let nz: NonZero<Uint<N>> = Option::from(NonZero::new(y)).expect("harness: zero modulus");
            return ctopt(InvMod::inv_mod(&x.as_int(), &nz), uv);
        }
        _ => {}
    }
    // odd modulus in argument 1
    let m = odd::<N>(ar(a, 1));
    match op {
        "uint.inv_odd_mod" => cctopt(x.inv_odd_mod(&m), uv),
        "uint.inv_odd_is_some" => val1(bl(bool::from(x.inv_odd_mod(&m).is_some()))),
        "int.inv_odd_is_some" => val1(bl(bool::from(x.as_int().inv_odd_mod(&m).is_some()))),
        "uint.inv_odd_mod.inverter" => ctopt(m.precompute_inverter().invert(&x), uv),
        "uint.inv_odd_mod_vartime.inverter" => ctopt(m.precompute_inverter().invert_vartime(&x), uv),
        "uint.inv_odd_mod.new_inv" => cctopt(SafeGcdInverter::<N, U>::new(&m, &Uint::ONE).inv(&x), uv),
        "uint.inv_odd_mod_vartime.new_inv" => cctopt(SafeGcdInverter::<N, U>::new(&m, &Uint::ONE).inv_vartime(&x), uv),
        "uint.inv_adj" => cctopt(SafeGcdInverter::<N, U>::new(&m, &u::<N>(ar(a, 2))).inv(&x), uv),
        "uint.inv_adj_vartime" => cctopt(SafeGcdInverter::<N, U>::new(&m, &u::<N>(ar(a, 2))).inv_vartime(&x), uv),
        "int.inv_odd_mod" => ctopt(x.as_int().inv_odd_mod(&m), uv),
        "monty.inv" | "monty.inv.invert" | "monty.inv_vartime" | "monty.inv_vartime.invert" => {
            let params = MontyParams::new_vartime(m);
            let mf = MontyForm::new(&x, params);
            let r: Option<MontyForm<N>> = match op {
                "monty.inv" => mf.inv().into(),
                "monty.inv.invert" => Invert::invert(&mf).into(),
                "monty.inv_vartime" => mf.inv_vartime().into(),
                _ => Invert::invert_vartime(&mf).into(),
            };
            opt_u(r.map(|z| z.retrieve()))
        }
        _ => None,
    }
}

fn monty_inverter(op: &str, a: &Args) -> Option<Out> {
    // MontyParams: PrecomputeInverter is only usable at concrete widths (its bound names a sealed trait)
    macro_rules! go {
        ($N:literal) => {{
            let params = MontyParams::<$N>::new_vartime(odd::<$N>(ar(a, 1)));
            let mf = MontyForm::new(&u::<$N>(ar(a, 0)), params);
            let inv = params.precompute_inverter();
            let r: Option<MontyForm<$N>> = if op == "monty.inv.inverter" { inv.invert(&mf).into() } else { inv.invert_vartime(&mf).into() };
            opt_u(r.map(|z| z.retrieve()))
        }};
    }
    match ar(a, 0).len() {
        1 => go!(1), 2 => go!(2), 3 => go!(3), 4 => go!(4), 6 => go!(6), 8 => go!(8), 16 => go!(16), 32 => go!(32),
        _ => None,
    }
}

fn uint_full64_new(a: &Args) -> Option<Out> {
    // MontyParams::new (constant-time constructor: inv_mod2k_vartime(64)) needs the Concat bound
    macro_rules! go {
        ($N:literal) => {{
            let p = MontyParams::<$N>::new(odd::<$N>(ar(a, 0)));
            val1(neg_inv_from_debug(&format!("{:?}", p)))
        }};
    }
    match ar(a, 0).len() {
        1 => go!(1), 2 => go!(2), 3 => go!(3), 4 => go!(4), 6 => go!(6), 8 => go!(8), 16 => go!(16), 32 => go!(32),
        _ => None,
    }
}

// ---- ConstMontyForm: moduli fixed at compile time (argument 2 selects one; argument 1 repeats its value) ----
impl_modulus!(CM64A, U64, "ffffffffffffffc5");
impl_modulus!(CM64B, U64, "0000000000000003");
impl_modulus!(CM64C, U64, "00000000ffffffff");
impl_modulus!(CM128A, U128, "ffffffffffffffffffffffffffffff61");
impl_modulus!(CM128B, U128, "0000000000000001000000000000000f");
impl_modulus!(CM256A, U256, "ffffffff00000000ffffffffffffffffbce6faada7179e84f3b9cac2fc632551");
impl_modulus!(CM256B, U256, "73eda753299d7d483339d80809a1d80553bda402fffe5bfeffffffff00000001");
impl_modulus!(CM256C, U256, "00000000000000000000000000000000000000000000000100000000000000a5");
impl_modulus!(
    CM1024A,
    U1024,
    "ffffffffffffffffffffffffffffffffffffffffffffffffffffffffffffffffffffffffffffffffffffffffffffffffffffffffffffffffffffffffffffffffffffffffffffffffffffffffffffffffffffffffffffffffffffffffffffffffffffffffffffffffffffffffffffffffffffffffffffffffffffffffffffff97"
);

fn constmonty<M: ConstMontyParams<N>, const N: usize, const U: usize>(op: &str, a: &Args) -> Option<Out>
where
    Odd<Uint<N>>: PrecomputeInverter<Inverter = SafeGcdInverter<N, U>, Output = Uint<N>>,
{
    assert_eq!(uv(M::MODULUS.as_ref()), ar(a, 1), "harness: const modulus mismatch");
    let mf = ConstMontyForm::<M, N>::new(&u::<N>(ar(a, 0)));
    let r: Option<ConstMontyForm<M, N>> = match op {
        "constmonty.inv" => mf.inv().into(),
        "constmonty.inv.invert" => Invert::invert(&mf).into(),
        "constmonty.inv.inverter" => ConstMontyFormInverter::<M, N>::new().inv(&mf).into(),
        "constmonty.inv.inverter_trait" => Inverter::invert(&M::precompute_inverter::<U>(), &mf).into(),
        "constmonty.inv_vartime" => mf.inv_vartime().into(),
        "constmonty.inv_vartime.invert" => Invert::invert_vartime(&mf).into(),
        "constmonty.inv_vartime.inverter" => ConstMontyFormInverter::<M, N>::new().inv_vartime(&mf).into(),
        "constmonty.inv_vartime.inverter_trait" => Inverter::invert_vartime(&M::precompute_inverter::<U>(), &mf).into(),
        _ => return None,
    };
    opt_u(r.map(|z| z.retrieve()))
}

fn constmonty_ops(op: &str, a: &Args) -> Option<Out> {
    match sc(a, 2) {
        0 => constmonty::<CM64A, 1, 3>(op, a),
        1 => constmonty::<CM64B, 1, 3>(op, a),
        2 => constmonty::<CM64C, 1, 3>(op, a),
        3 => constmonty::<CM128A, 2, 4>(op, a),
        4 => constmonty::<CM128B, 2, 4>(op, a),
        5 => constmonty::<CM256A, 4, 6>(op, a),
        6 => constmonty::<CM256B, 4, 6>(op, a),
        7 => constmonty::<CM256C, 4, 6>(op, a),
        8 => constmonty::<CM1024A, 16, 18>(op, a),
        _ => None,
    }
}

fn pair_b(r: (BoxedUint, subtle::Choice)) -> Option<Out> {
    if bool::from(r.1) { val1(bv(&r.0)) } else { Some(Out::None) }
}

fn boxed_ops(op: &str, a: &Args) -> Option<Out> {
    let x = bx(ar(a, 0));
    match op {
        "boxed.inv_mod2k" => return pair_b(x.inv_mod2k(sc(a, 1) as u32)),
        "boxed.inv_mod2k_vartime" => return pair_b(x.inv_mod2k_vartime(sc(a, 1) as u32)),
        "boxed.inv_mod2k_full64" => {
            let p = BoxedMontyParams::new_vartime(bodd(ar(a, 0)));
            return val1(neg_inv_from_debug(&format!("{:?}", p)));
        }
        "boxed.inv_mod2k_full64.new" => {
            let p = BoxedMontyParams::new(bodd(ar(a, 0)));
            return val1(neg_inv_from_debug(&format!("{:?}", p)));
        }
        _ => {}
    }
    let y = bx(ar(a, 1));
    match op {
        "boxed.inv_mod" => return ctopt(x.inv_mod(&y), bv),
        "boxed.inv_mod.trait" => return ctopt(InvMod::inv_mod(&x, &y), bv),
        "boxed.inv_is_some" => return val1(bl(bool::from(x.inv_mod(&y).is_some()))),
        "boxed.gcd" => return val1(bv(&Gcd::gcd(&x, &y))),
        "boxed.gcd_vartime" => return val1(bv(&Gcd::gcd_vartime(&x, &y))),
        "boxed_odd.gcd" => return val1(bv(&Gcd::gcd(&bodd(ar(a, 0)), &y))),
        "boxed_odd.gcd_vartime" => return val1(bv(&Gcd::gcd_vartime(&bodd(ar(a, 0)), &y))),
        "boxed.gcd_converged" => {
            let c = Gcd::gcd(&x, &y);
            return val1(bl(c.bits_precision() == x.bits_precision()));
        }
        "boxed.safegcd_converged" => {
            let inv = bodd(ar(a, 0)).precompute_inverter();
            let c: Option<BoxedUint> = inv.invert(&y).into();
            let v: Option<BoxedUint> = inv.invert_vartime(&y).into();
            return val1(bl(c == v));
        }
        _ => {}
    }
    let m = bodd(ar(a, 1));
    match op {
        "boxed.inv_odd_mod" => ctopt(x.inv_odd_mod(&m), bv),
        "boxed.inv_odd_is_some" => val1(bl(bool::from(x.inv_odd_mod(&m).is_some()))),
        "boxed.inv_odd_mod.inverter" => ctopt(m.precompute_inverter().invert(&x), bv),
        "boxed.inv_odd_mod_vartime.inverter" => ctopt(m.precompute_inverter().invert_vartime(&x), bv),
        "boxedmonty.inv" | "boxedmonty.inv.trait" | "boxedmonty.inv.inverter" | "boxedmonty.inv_vartime"
        | "boxedmonty.inv_vartime.trait" | "boxedmonty.inv_vartime.inverter" => {
            let params = BoxedMontyParams::new(m);
            let mf = BoxedMontyForm::new(x, params.clone());
            let r: Option<BoxedMontyForm> = match op {
                "boxedmonty.inv" => mf.invert().into(),
                "boxedmonty.inv.trait" => Invert::invert(&mf).into(),
                "boxedmonty.inv.inverter" => params.precompute_inverter().invert(&mf).into(),
                "boxedmonty.inv_vartime" => mf.invert_vartime().into(),
                "boxedmonty.inv_vartime.trait" => Invert::invert_vartime(&mf).into(),
                _ => params.precompute_inverter().invert_vartime(&mf).into(),
            };
            opt_b(r.map(|z| z.retrieve()))
        }
        _ => None,
    }
}

pub fn run(op: &str, a: &Args) -> Option<Out> {
    if op.starts_with("boxed") {
        return boxed_ops(op, a);
    }
    if op.starts_with("constmonty.") {
        return constmonty_ops(op, a);
    }
    if op == "monty.inv.inverter" || op == "monty.inv_vartime.inverter" {
        return monty_inverter(op, a);
    }
    if op == "uint.inv_mod2k_full64.new" {
        return uint_full64_new(a);
    }
    match ar(a, 0).len() {
        1 => uint_ops::<1, 3>(op, a),
        2 => uint_ops::<2, 4>(op, a),
        3 => uint_ops::<3, 5>(op, a),
        4 => uint_ops::<4, 6>(op, a),
        6 => uint_ops::<6, 8>(op, a),
        8 => uint_ops::<8, 10>(op, a),
        16 => uint_ops::<16, 18>(op, a),
        32 => uint_ops::<32, 35>(op, a),
        _ => None,
    }
}
