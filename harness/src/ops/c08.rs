//! C08 adapters: Montgomery-form values (MontyForm / ConstMontyForm / BoxedMontyForm) over operation histories,
//! the parameter constructors, the public montgomery_reduction and mul_mod.
//! A history case is [m; [cfg]; flat ops (code, i, j, v)*; x0; x1; ...]; the adapter emits as_montgomery() and
//! retrieve() of the result of EVERY step.  `v` selects the API route of the step (inherent method, operators by
//! value / reference, assigning forms, traits, multiplier object); `cfg` selects the parameter constructor.
//! The compile-time moduli (`const_mods!`) are the table printed by tools/vlib/c08.py::rust_moduli_table().
use crate::util::*;
use crypto_bigint::modular::{
    BoxedMontyForm, BoxedMontyParams, ConstMontyForm, ConstMontyParams, MontyForm, MontyParams, Retrieve, montgomery_reduction,
};
use crypto_bigint::{
    BoxedUint, Concat, ConstZero, ConstantTimeSelect, Limb, Monty, MontyMultiplier, MulMod, NonZero, Odd, Split, Square,
    SquareAssign, U64, U128, U192, U256, U384, U512, U1024, U2048, Uint, const_monty_form, impl_modulus,
};
use std::sync::Arc;
use subtle::{Choice, ConditionallySelectable};

pub const OPS: &[&str] = &[
    "monty.reduction",
    "monty.params.new", "monty.params.new_vartime", "monty.params.trait", "monty.params.const", "monty.params.from_const",
    "monty.params.boxed_from_const", "monty.params.select", "monty.params.select_form",
    "monty.boxed_params.new", "monty.boxed_params.new_vartime", "monty.boxed_params.trait",
    "monty.history.dyn", "monty.history.const", "monty.history.const_dyn",
    "monty.boxed_history.boxed", "monty.boxed_history.const_boxed",
    "monty.uint_mul_mod", "monty.boxed_mul_mod", "monty.boxed_mul_mod.trait",
];

// ------------------------------------------------------------------------------------------------ representation trait
trait Rep: Clone {
    type Ctx;
    fn new(c: &Self::Ctx, x: &[u64], v: u64) -> Self;
    fn zero(c: &Self::Ctx, v: u64) -> Self;
    fn one(c: &Self::Ctx, v: u64) -> Self;
    fn add(&self, b: &Self, v: u64) -> Self;
    fn sub(&self, b: &Self, v: u64) -> Self;
    fn neg(&self, v: u64) -> Self;
    fn double(&self, v: u64) -> Self;
    fn mul(&self, b: &Self, c: &Self::Ctx, v: u64) -> Self;
    fn square(&self, c: &Self::Ctx, v: u64) -> Self;
    fn half(&self, v: u64) -> Self;
    fn select(a: &Self, b: &Self, ch: bool, v: u64) -> Self;
    fn mul_assign(&mut self, b: &Self, c: &Self::Ctx, v: u64);
    fn square_assign(&mut self, c: &Self::Ctx, v: u64);
    fn add_assign(&mut self, b: &Self, v: u64);
    fn sub_assign(&mut self, b: &Self, v: u64);
    fn half_assign(&mut self, v: u64);
    fn conv(&self, c: &Self::Ctx, v: u64) -> Self;
    fn mont(&self, v: u64) -> Vec<u64>;
    fn retr(&self, v: u64) -> Vec<u64>;
}

fn run_history<R: Rep>(c: &R::Ctx, a: &Args) -> Option<Out> {
    let ops = ar(a, 2);
    if ops.len() % 4 != 0 {
        return None;
    }
    let mut vals: Vec<R> = Vec::new();
    let mut out: Vec<Vec<u64>> = Vec::new();
    for o in ops.chunks(4) {
        let (code, i, j, v) = (o[0], o[1] as usize, o[2] as usize, o[3]);
        let r: R = match code {
            0 => R::new(c, ar(a, 3 + i), v),
            1 => R::zero(c, v),
            2 => R::one(c, v),
            3 => vals[i].add(&vals[j], v),
            4 => vals[i].sub(&vals[j], v),
            5 => vals[i].neg(v),
            6 => vals[i].double(v),
            7 => vals[i].mul(&vals[j], c, v),
            8 => vals[i].square(c, v),
            9 => vals[i].half(v),
            10 => R::select(&vals[i], &vals[j], v & 1 == 1, v >> 1),
            11 => { let b = vals[j].clone(); vals[i].mul_assign(&b, c, v); vals[i].clone() }
            12 => { vals[i].square_assign(c, v); vals[i].clone() }
            13 => { let b = vals[j].clone(); vals[i].add_assign(&b, v); vals[i].clone() }
            14 => { let b = vals[j].clone(); vals[i].sub_assign(&b, v); vals[i].clone() }
            15 => { vals[i].half_assign(v); vals[i].clone() }
            16 => vals[i].conv(c, v),
            17 => vals[i].clone(),
            _ => return None,
        };
        out.push(r.mont(v));
        out.push(r.retr(v >> 2));
        if !(11..=15).contains(&code) && code != 17 {
            vals.push(r);
        }
    }
    Some(Out::Val(out))
}

// ------------------------------------------------------------------------------------------------ MontyForm<N>
impl<const N: usize> Rep for MontyForm<N> {
    type Ctx = MontyParams<N>;
    fn new(c: &Self::Ctx, x: &[u64], v: u64) -> Self {
        let x: Uint<N> = u(x);
        match v % 2 { 0 => MontyForm::new(&x, *c), _ => <MontyForm<N> as Monty>::new(x, *c) }
    }
    fn zero(c: &Self::Ctx, v: u64) -> Self {
        match v % 2 { 0 => MontyForm::zero(*c), _ => <MontyForm<N> as Monty>::zero(*c) }
    }
    fn one(c: &Self::Ctx, v: u64) -> Self {
        match v % 2 { 0 => MontyForm::one(*c), _ => <MontyForm<N> as Monty>::one(*c) }
    }
    fn add(&self, b: &Self, v: u64) -> Self {
        match v % 7 {
            0 => MontyForm::add(self, b), 1 => self + b, 2 => *self + *b, 3 => *self + b, 4 => self + *b,
            5 => { let mut r = *self; r += b; r }
            _ => { let mut r = *self; r += *b; r }
        }
    }
    fn sub(&self, b: &Self, v: u64) -> Self {
        match v % 7 {
            0 => MontyForm::sub(self, b), 1 => self - b, 2 => *self - *b, 3 => *self - b, 4 => self - *b,
            5 => { let mut r = *self; r -= b; r }
            _ => { let mut r = *self; r -= *b; r }
        }
    }
    fn neg(&self, v: u64) -> Self {
        match v % 3 { 0 => MontyForm::neg(self), 1 => -*self, _ => -self }
    }
    fn double(&self, v: u64) -> Self {
        match v % 2 { 0 => MontyForm::double(self), _ => <MontyForm<N> as Monty>::double(self) }
    }
    fn mul(&self, b: &Self, c: &Self::Ctx, v: u64) -> Self {
        match v % 8 {
            0 => MontyForm::mul(self, b), 1 => self * b, 2 => *self * *b, 3 => *self * b, 4 => self * *b,
            5 => { let mut r = *self; r *= b; r }
            6 => { let mut r = *self; r *= *b; r }
            _ => {
                let mut mm: <MontyForm<N> as Monty>::Multiplier<'_> = From::from(c);
                let mut r = *self;
                MontyMultiplier::mul_assign(&mut mm, &mut r, b);
                r
            }
        }
    }
    fn square(&self, c: &Self::Ctx, v: u64) -> Self {
        match v % 4 {
            0 => MontyForm::square(self),
            1 => <MontyForm<N> as Square>::square(self),
            2 => { let mut r = *self; <MontyForm<N> as SquareAssign>::square_assign(&mut r); r }
            _ => {
                let mut mm: <MontyForm<N> as Monty>::Multiplier<'_> = From::from(c);
                let mut r = *self;
                MontyMultiplier::square_assign(&mut mm, &mut r);
                r
            }
        }
    }
    fn half(&self, v: u64) -> Self {
        match v % 2 { 0 => MontyForm::div_by_2(self), _ => <MontyForm<N> as Monty>::div_by_2(self) }
    }
    fn select(a: &Self, b: &Self, ch: bool, v: u64) -> Self {
        let c = Choice::from(ch as u8);
        match v % 4 {
            0 => <MontyForm<N> as ConditionallySelectable>::conditional_select(a, b, c),
            1 => <MontyForm<N> as ConstantTimeSelect>::ct_select(a, b, c),
            2 => { let mut r = *a; r.conditional_assign(b, c); r }
            _ => { let mut r = *a; ConstantTimeSelect::ct_assign(&mut r, b, c); r }
        }
    }
    fn mul_assign(&mut self, b: &Self, c: &Self::Ctx, v: u64) {
        match v % 3 {
            0 => *self *= b,
            1 => *self *= *b,
            _ => { let mut mm: <MontyForm<N> as Monty>::Multiplier<'_> = From::from(c); MontyMultiplier::mul_assign(&mut mm, self, b); }
        }
    }
    fn square_assign(&mut self, c: &Self::Ctx, v: u64) {
        match v % 2 {
            0 => <MontyForm<N> as SquareAssign>::square_assign(self),
            _ => { let mut mm: <MontyForm<N> as Monty>::Multiplier<'_> = From::from(c); MontyMultiplier::square_assign(&mut mm, self); }
        }
    }
    fn add_assign(&mut self, b: &Self, v: u64) { match v % 2 { 0 => *self += b, _ => *self += *b } }
    fn sub_assign(&mut self, b: &Self, v: u64) { match v % 2 { 0 => *self -= b, _ => *self -= *b } }
    fn half_assign(&mut self, v: u64) {
        match v % 2 { 0 => <MontyForm<N> as Monty>::div_by_2_assign(self), _ => *self = MontyForm::div_by_2(self) }
    }
    fn conv(&self, c: &Self::Ctx, v: u64) -> Self {
        match v % 3 {
            0 => MontyForm::from_montgomery(self.to_montgomery(), *c),
            1 => { let mut r = MontyForm::zero(*c); <MontyForm<N> as Monty>::copy_montgomery_from(&mut r, self); r }
            _ => { let mut r = MontyForm::zero(*c); *r.as_montgomery_mut() = *self.as_montgomery(); r }
        }
    }
    fn mont(&self, v: u64) -> Vec<u64> {
        match v % 3 { 0 => uv(self.as_montgomery()), 1 => uv(&self.to_montgomery()), _ => uv(<MontyForm<N> as Monty>::as_montgomery(self)) }
    }
    fn retr(&self, v: u64) -> Vec<u64> {
        match v % 2 { 0 => uv(&MontyForm::retrieve(self)), _ => uv(&<MontyForm<N> as Retrieve>::retrieve(self)) }
    }
}

// ------------------------------------------------------------------------------------------------ ConstMontyForm<P, N>
/// context of the const route: `const_monty_form!` for the concrete modulus type (the macro needs a non-generic type)
struct ConstCtx<P: ConstMontyParams<N>, const N: usize> {
    via_macro: fn(&Uint<N>) -> ConstMontyForm<P, N>,
}
impl<P: ConstMontyParams<N>, const N: usize> Rep for ConstMontyForm<P, N> {
    type Ctx = ConstCtx<P, N>;
    fn new(c: &Self::Ctx, x: &[u64], v: u64) -> Self {
        let x: Uint<N> = u(x);
        match v % 2 { 0 => ConstMontyForm::<P, N>::new(&x), _ => (c.via_macro)(&x) }
    }
    fn zero(_c: &Self::Ctx, v: u64) -> Self {
        match v % 4 {
            0 => ConstMontyForm::<P, N>::ZERO,
            1 => <ConstMontyForm<P, N> as Default>::default(),
            2 => <ConstMontyForm<P, N> as ConstZero>::ZERO,
            _ => <ConstMontyForm<P, N> as num_traits::Zero>::zero(),
        }
    }
    fn one(_c: &Self::Ctx, _v: u64) -> Self { ConstMontyForm::<P, N>::ONE }
    fn add(&self, b: &Self, v: u64) -> Self {
        match v % 7 {
            0 => ConstMontyForm::add(self, b), 1 => self + b, 2 => *self + *b, 3 => *self + b, 4 => self + *b,
            5 => { let mut r = *self; r += b; r }
            _ => { let mut r = *self; r += *b; r }
        }
    }
    fn sub(&self, b: &Self, v: u64) -> Self {
        match v % 7 {
            0 => ConstMontyForm::sub(self, b), 1 => self - b, 2 => *self - *b, 3 => *self - b, 4 => self - *b,
            5 => { let mut r = *self; r -= b; r }
            _ => { let mut r = *self; r -= *b; r }
        }
    }
    fn neg(&self, v: u64) -> Self {
        match v % 3 { 0 => ConstMontyForm::neg(self), 1 => -*self, _ => -self }
    }
    fn double(&self, _v: u64) -> Self { ConstMontyForm::double(self) }
    fn mul(&self, b: &Self, _c: &Self::Ctx, v: u64) -> Self {
        match v % 7 {
            0 => ConstMontyForm::mul(self, b), 1 => self * b, 2 => *self * *b, 3 => *self * b, 4 => self * *b,
            5 => { let mut r = *self; r *= b; r }
            _ => { let mut r = *self; r *= *b; r }
        }
    }
    fn square(&self, _c: &Self::Ctx, v: u64) -> Self {
        match v % 2 { 0 => ConstMontyForm::square(self), _ => <ConstMontyForm<P, N> as Square>::square(self) }
    }
    fn half(&self, _v: u64) -> Self { ConstMontyForm::div_by_2(self) }
    fn select(a: &Self, b: &Self, ch: bool, v: u64) -> Self {
        let c = Choice::from(ch as u8);
        match v % 4 {
            0 => <ConstMontyForm<P, N> as ConditionallySelectable>::conditional_select(a, b, c),
            1 => <ConstMontyForm<P, N> as ConstantTimeSelect>::ct_select(a, b, c),
            2 => { let mut r = *a; r.conditional_assign(b, c); r }
            _ => { let mut r = *a; ConstantTimeSelect::ct_assign(&mut r, b, c); r }
        }
    }
    fn mul_assign(&mut self, b: &Self, _c: &Self::Ctx, v: u64) { match v % 2 { 0 => *self *= b, _ => *self *= *b } }
    fn square_assign(&mut self, _c: &Self::Ctx, _v: u64) { *self = ConstMontyForm::square(self) }
    fn add_assign(&mut self, b: &Self, v: u64) { match v % 2 { 0 => *self += b, _ => *self += *b } }
    fn sub_assign(&mut self, b: &Self, v: u64) { match v % 2 { 0 => *self -= b, _ => *self -= *b } }
    fn half_assign(&mut self, _v: u64) { *self = ConstMontyForm::div_by_2(self) }
    /// const -> dyn (From<&ConstMontyForm>, params by from_const_params) [-> boxed], one multiplication by one() there, and back
    fn conv(&self, _c: &Self::Ctx, v: u64) -> Self {
        let d: MontyForm<N> = MontyForm::from(self);
        match v % 3 {
            0 => ConstMontyForm::<P, N>::from_montgomery(d.to_montgomery()),
            1 => {
                let d2 = d * MontyForm::one(*d.params());
                ConstMontyForm::<P, N>::from_montgomery(d2.to_montgomery())
            }
            _ => {
                let bp = BoxedMontyParams::from_const_params::<N, P>();
                let bf = BoxedMontyForm::from_montgomery(BoxedUint::from(d.to_montgomery()), bp.clone());
                let b2 = &bf * &BoxedMontyForm::one(bp);
                ConstMontyForm::<P, N>::from_montgomery(u::<N>(b2.to_montgomery().as_words()))
            }
        }
    }
    fn mont(&self, v: u64) -> Vec<u64> {
        match v % 2 { 0 => uv(self.as_montgomery()), _ => uv(&self.to_montgomery()) }
    }
    fn retr(&self, v: u64) -> Vec<u64> {
        match v % 2 { 0 => uv(&ConstMontyForm::retrieve(self)), _ => uv(&<ConstMontyForm<P, N> as Retrieve>::retrieve(self)) }
    }
}

// ------------------------------------------------------------------------------------------------ BoxedMontyForm
impl Rep for BoxedMontyForm {
    type Ctx = BoxedMontyParams;
    fn new(c: &Self::Ctx, x: &[u64], v: u64) -> Self {
        match v % 3 {
            0 => BoxedMontyForm::new(bx(x), c.clone()),
            1 => BoxedMontyForm::new_with_arc(bx(x), Arc::new(c.clone())),
            _ => <BoxedMontyForm as Monty>::new(bx(x), c.clone()),
        }
    }
    fn zero(c: &Self::Ctx, v: u64) -> Self {
        match v % 2 { 0 => BoxedMontyForm::zero(c.clone()), _ => <BoxedMontyForm as Monty>::zero(c.clone()) }
    }
    fn one(c: &Self::Ctx, v: u64) -> Self {
        match v % 2 { 0 => BoxedMontyForm::one(c.clone()), _ => <BoxedMontyForm as Monty>::one(c.clone()) }
    }
    fn add(&self, b: &Self, v: u64) -> Self {
        match v % 7 {
            0 => BoxedMontyForm::add(self, b), 1 => self + b, 2 => self.clone() + b.clone(), 3 => self.clone() + b, 4 => self + b.clone(),
            5 => { let mut r = self.clone(); r += b; r }
            _ => { let mut r = self.clone(); r += b.clone(); r }
        }
    }
    fn sub(&self, b: &Self, v: u64) -> Self {
        match v % 7 {
            0 => BoxedMontyForm::sub(self, b), 1 => self - b, 2 => self.clone() - b.clone(), 3 => self.clone() - b, 4 => self - b.clone(),
            5 => { let mut r = self.clone(); r -= b; r }
            _ => { let mut r = self.clone(); r -= b.clone(); r }
        }
    }
    fn neg(&self, v: u64) -> Self {
        match v % 3 { 0 => BoxedMontyForm::neg(self), 1 => -self.clone(), _ => -self }
    }
    fn double(&self, v: u64) -> Self {
        match v % 2 { 0 => BoxedMontyForm::double(self), _ => <BoxedMontyForm as Monty>::double(self) }
    }
    fn mul(&self, b: &Self, c: &Self::Ctx, v: u64) -> Self {
        match v % 8 {
            0 => BoxedMontyForm::mul(self, b), 1 => self * b, 2 => self.clone() * b.clone(), 3 => self.clone() * b, 4 => self * b.clone(),
            5 => { let mut r = self.clone(); r *= b; r }
            6 => { let mut r = self.clone(); r *= b.clone(); r }
            _ => {
                let mut mm: <BoxedMontyForm as Monty>::Multiplier<'_> = From::from(c);
                let mut r = self.clone();
                MontyMultiplier::mul_assign(&mut mm, &mut r, b);
                r
            }
        }
    }
    fn square(&self, c: &Self::Ctx, v: u64) -> Self {
        match v % 4 {
            0 => BoxedMontyForm::square(self),
            1 => <BoxedMontyForm as Square>::square(self),
            2 => { let mut r = self.clone(); <BoxedMontyForm as SquareAssign>::square_assign(&mut r); r }
            _ => {
                let mut mm: <BoxedMontyForm as Monty>::Multiplier<'_> = From::from(c);
                let mut r = self.clone();
                MontyMultiplier::square_assign(&mut mm, &mut r);
                r
            }
        }
    }
    fn half(&self, v: u64) -> Self {
        match v % 2 { 0 => BoxedMontyForm::div_by_2(self), _ => <BoxedMontyForm as Monty>::div_by_2(self) }
    }
    /// no select API on BoxedMontyForm: clone of the chosen operand
    fn select(a: &Self, b: &Self, ch: bool, _v: u64) -> Self { if ch { b.clone() } else { a.clone() } }
    fn mul_assign(&mut self, b: &Self, c: &Self::Ctx, v: u64) {
        match v % 3 {
            0 => *self *= b,
            1 => *self *= b.clone(),
            _ => {
                // several products through one multiplier object: its scratch buffer is reused
                let mut mm: <BoxedMontyForm as Monty>::Multiplier<'_> = From::from(c);
                let mut scratch = b.clone();
                MontyMultiplier::mul_assign(&mut mm, &mut scratch, b);
                MontyMultiplier::mul_assign(&mut mm, self, b);
            }
        }
    }
    fn square_assign(&mut self, c: &Self::Ctx, v: u64) {
        match v % 2 {
            0 => <BoxedMontyForm as SquareAssign>::square_assign(self),
            _ => { let mut mm: <BoxedMontyForm as Monty>::Multiplier<'_> = From::from(c); MontyMultiplier::square_assign(&mut mm, self); }
        }
    }
    fn add_assign(&mut self, b: &Self, v: u64) { match v % 2 { 0 => *self += b, _ => *self += b.clone() } }
    fn sub_assign(&mut self, b: &Self, v: u64) { match v % 2 { 0 => *self -= b, _ => *self -= b.clone() } }
    fn half_assign(&mut self, v: u64) {
        match v % 2 { 0 => BoxedMontyForm::div_by_2_assign(self), _ => <BoxedMontyForm as Monty>::div_by_2_assign(self) }
    }
    fn conv(&self, c: &Self::Ctx, v: u64) -> Self {
        match v % 2 {
            0 => BoxedMontyForm::from_montgomery(self.to_montgomery(), c.clone()),
            _ => { let mut r = BoxedMontyForm::zero(c.clone()); <BoxedMontyForm as Monty>::copy_montgomery_from(&mut r, self); r }
        }
    }
    fn mont(&self, v: u64) -> Vec<u64> {
        match v % 3 { 0 => bv(self.as_montgomery()), 1 => bv(&self.to_montgomery()), _ => bv(<BoxedMontyForm as Monty>::as_montgomery(self)) }
    }
    fn retr(&self, v: u64) -> Vec<u64> {
        match v % 2 { 0 => bv(&BoxedMontyForm::retrieve(self)), _ => bv(&<BoxedMontyForm as Retrieve>::retrieve(self)) }
    }
}

// ------------------------------------------------------------------------------------------------ parameters
/// hexadecimal digits (big endian) -> n little-endian words
fn hex_words(h: &str, n: usize) -> Vec<u64> {
    let h = h.trim_start_matches("0x");
    let mut w = vec![0u64; n];
    for (k, ch) in h.bytes().rev().enumerate() {
        let d = (ch as char).to_digit(16).expect("harness: hex digit") as u64;
        if k / 16 < n { w[k / 16] |= d << (4 * (k % 16)); } else { assert_eq!(d, 0, "harness: value wider than expected"); }
    }
    w
}
/// the fields of the derived Debug output `... { modulus: .., one: X(0x..), r2: .., r3: .., mod_neg_inv: Limb(0x..), mod_leading_zeros: d }`
fn params_from_debug(s: &str, n: usize) -> Option<Out> {
    fn after<'a>(s: &'a str, key: &str) -> &'a str {
        let p = s.find(key).expect("harness: params field");
        &s[p + key.len()..]
    }
    fn hex_field<'a>(s: &'a str, key: &str) -> &'a str {
        let t = after(s, key);
        let t = &t[t.find("0x").expect("harness: hex") + 2..];
        &t[..t.find(')').expect("harness: paren")]
    }
    let lz_s = after(s, "mod_leading_zeros: ");
    let lz: u64 = lz_s[..lz_s.find(|c: char| !c.is_ascii_digit()).unwrap_or(lz_s.len())].parse().expect("harness: lz");
    Some(Out::Val(vec![
        hex_words(hex_field(s, " one: "), n), hex_words(hex_field(s, " r2: "), n), hex_words(hex_field(s, " r3: "), n),
        hex_words(hex_field(s, " mod_neg_inv: "), 1), vec![lz],
    ]))
}

fn odd_uint<const N: usize>(m: &[u64]) -> Odd<Uint<N>> {
    Option::from(Odd::new(u::<N>(m))).expect("harness: even modulus")
}
fn odd_boxed(m: &[u64]) -> Odd<BoxedUint> {
    Option::from(Odd::new(bx(m))).expect("harness: even modulus")
}
fn boxed_params(m: &[u64], cfg: u64) -> BoxedMontyParams {
    match cfg % 3 {
        0 => BoxedMontyParams::new(odd_boxed(m)),
        1 => BoxedMontyParams::new_vartime(odd_boxed(m)),
        _ => <BoxedMontyForm as Monty>::new_params_vartime(odd_boxed(m)),
    }
}

macro_rules! dyn_width {
    ($N:literal, $W:literal, $op:expr, $a:expr) => {{
        let a: &Args = $a;
        let op: &str = $op;
        let m = ar(a, 0);
        let mk = |cfg: u64| -> MontyParams<$N> {
            match cfg % 3 {
                0 => MontyParams::<$N>::new(odd_uint::<$N>(m)),
                1 => MontyParams::<$N>::new_vartime(odd_uint::<$N>(m)),
                _ => <MontyForm<$N> as Monty>::new_params_vartime(odd_uint::<$N>(m)),
            }
        };
        match op {
            "monty.params.new" => params_from_debug(&format!("{:?}", mk(0)), $N),
            "monty.params.new_vartime" => params_from_debug(&format!("{:?}", mk(1)), $N),
            "monty.params.trait" => params_from_debug(&format!("{:?}", mk(2)), $N),
            // args: chosen modulus, other modulus, flag. ConditionallySelectable for MontyParams / MontyForm across two
            // DIFFERENT parameter sets: flag 0 selects `a` (= chosen) with Choice(0), flag 1 selects `b` (= chosen) with Choice(1)
            "monty.params.select" | "monty.params.select_form" => {
                use subtle::{Choice, ConditionallySelectable};
                let chosen = MontyParams::<$N>::new(odd_uint::<$N>(ar(a, 0)));
                let other = MontyParams::<$N>::new_vartime(odd_uint::<$N>(ar(a, 1)));
                let flag = sc(a, 2) & 1;
                if op == "monty.params.select" {
                    let r = if flag == 0 { MontyParams::<$N>::conditional_select(&chosen, &other, Choice::from(0)) }
                            else { MontyParams::<$N>::conditional_select(&other, &chosen, Choice::from(1)) };
                    params_from_debug(&format!("{:?}", r), $N)
                } else {
                    let fc = MontyForm::<$N>::one(chosen);
                    let fo = MontyForm::<$N>::one(other);
                    let r = if flag == 0 { MontyForm::<$N>::conditional_select(&fc, &fo, Choice::from(0)) }
                            else { MontyForm::<$N>::conditional_select(&fo, &fc, Choice::from(1)) };
                    params_from_debug(&format!("{:?}", r.params()), $N)
                }
            }
            "monty.history.dyn" => { let p = mk(sc(a, 1)); run_history::<MontyForm<$N>>(&p, a) }
            "monty.reduction" => {
                let (lo, hi, m): (Uint<$N>, Uint<$N>, Odd<Uint<$N>>) = (u(ar(a, 0)), u(ar(a, 1)), odd_uint::<$N>(ar(a, 2)));
                val1(uv(&montgomery_reduction::<$N>(&(lo, hi), &m, Limb(sc(a, 3)))))
            }
            "monty.uint_mul_mod" => {
                let (x, y, p): (Uint<$N>, Uint<$N>, Uint<$N>) = (u(ar(a, 0)), u(ar(a, 1)), u(ar(a, 2)));
                let nz: NonZero<Uint<$N>> = Option::from(NonZero::new(p)).expect("harness: zero modulus");
                val1(uv(&x.mul_mod::<$W>(&y, &nz)))
            }
            _ => None,
        }
    }};
}

// ------------------------------------------------------------------------------------------------ compile-time moduli
fn const_route<P: ConstMontyParams<N>, const N: usize>(op: &str, a: &Args, via_macro: fn(&Uint<N>) -> ConstMontyForm<P, N>) -> Option<Out> {
    match op {
        "monty.params.const" => Some(Out::Val(vec![uv(&P::ONE), uv(&P::R2), uv(&P::R3), vec![P::MOD_NEG_INV.0], vec![P::MOD_LEADING_ZEROS as u64]])),
        "monty.params.from_const" => params_from_debug(&format!("{:?}", MontyParams::<N>::from_const_params::<P>()), N),
        "monty.params.boxed_from_const" => params_from_debug(&format!("{:?}", BoxedMontyParams::from_const_params::<N, P>()), N),
        "monty.history.const" => run_history::<ConstMontyForm<P, N>>(&ConstCtx { via_macro }, a),
        "monty.history.const_dyn" => run_history::<MontyForm<N>>(&MontyParams::<N>::from_const_params::<P>(), a),
        "monty.boxed_history.const_boxed" => run_history::<BoxedMontyForm>(&BoxedMontyParams::from_const_params::<N, P>(), a),
        _ => None,
    }
}

macro_rules! const_mods {
    ($( ($name:ident, $ty:ty, $n:literal, $hex:expr) ),* $(,)?) => {
        $( impl_modulus!($name, $ty, $hex); )*
        fn const_dispatch(op: &str, a: &Args) -> Option<Out> {
            let m = ar(a, 0);
            $(
                if m.len() == $n && uv(&<$name as ConstMontyParams<$n>>::MODULUS.get()) == m {
                    fn via(x: &Uint<$n>) -> ConstMontyForm<$name, $n> { let x = *x; const_monty_form!(x, $name) }
                    return const_route::<$name, $n>(op, a, via);
                }
            )*
            None
        }
    };
}

const_mods! {
    (M1_one, U64, 1, "0000000000000001"),
    (M1_three, U64, 1, "0000000000000003"),
    (M1_max, U64, 1, "ffffffffffffffff"),
    (M1_half1, U64, 1, "8000000000000001"),
    (M1_third, U64, 1, "5555555555555555"),
    (M1_quarter, U64, 1, "3fffffffffffffff"),
    (M1_lowlimb, U64, 1, "00000000ffffffff"),
    (M1_rm3, U64, 1, "fffffffffffffffd"),
    (M1_rnd, U64, 1, "c407730080b03de1"),
    (M2_one, U128, 2, "00000000000000000000000000000001"),
    (M2_three, U128, 2, "00000000000000000000000000000003"),
    (M2_max, U128, 2, "ffffffffffffffffffffffffffffffff"),
    (M2_half1, U128, 2, "80000000000000000000000000000001"),
    (M2_third, U128, 2, "55555555555555555555555555555555"),
    (M2_quarter, U128, 2, "3fffffffffffffffffffffffffffffff"),
    (M2_lowlimb, U128, 2, "0000000000000000ffffffffffffffff"),
    (M2_rm3, U128, 2, "fffffffffffffffffffffffffffffffd"),
    (M2_rnd, U128, 2, "fffffffffffffffee21967f448cc73a3"),
    (M3_one, U192, 3, "000000000000000000000000000000000000000000000001"),
    (M3_three, U192, 3, "000000000000000000000000000000000000000000000003"),
    (M3_max, U192, 3, "ffffffffffffffffffffffffffffffffffffffffffffffff"),
    (M3_half1, U192, 3, "800000000000000000000000000000000000000000000001"),
    (M3_third, U192, 3, "555555555555555555555555555555555555555555555555"),
    (M3_quarter, U192, 3, "3fffffffffffffffffffffffffffffffffffffffffffffff"),
    (M3_lowlimb, U192, 3, "00000000000000000000000000000000ffffffffffffffff"),
    (M3_rm3, U192, 3, "fffffffffffffffffffffffffffffffffffffffffffffffd"),
    (M3_rnd, U192, 3, "c725e633d7beb7cfffffffffffffffff1964e951f7bfcbc5"),
    (M4_one, U256, 4, "0000000000000000000000000000000000000000000000000000000000000001"),
    (M4_three, U256, 4, "0000000000000000000000000000000000000000000000000000000000000003"),
    (M4_max, U256, 4, "ffffffffffffffffffffffffffffffffffffffffffffffffffffffffffffffff"),
    (M4_half1, U256, 4, "8000000000000000000000000000000000000000000000000000000000000001"),
    (M4_third, U256, 4, "5555555555555555555555555555555555555555555555555555555555555555"),
    (M4_quarter, U256, 4, "3fffffffffffffffffffffffffffffffffffffffffffffffffffffffffffffff"),
    (M4_lowlimb, U256, 4, "000000000000000000000000000000000000000000000000ffffffffffffffff"),
    (M4_rm3, U256, 4, "fffffffffffffffffffffffffffffffffffffffffffffffffffffffffffffffd"),
    (M4_rnd, U256, 4, "fffffffffffffffefcc254da81b21016ffffffffffffffffa278fc5d46100ab9"),
    (M6_one, U384, 6, "000000000000000000000000000000000000000000000000000000000000000000000000000000000000000000000001"),
    (M6_max, U384, 6, "ffffffffffffffffffffffffffffffffffffffffffffffffffffffffffffffffffffffffffffffffffffffffffffffff"),
    (M6_third, U384, 6, "555555555555555555555555555555555555555555555555555555555555555555555555555555555555555555555555"),
    (M6_lowlimb, U384, 6, "00000000000000000000000000000000000000000000000000000000000000000000000000000000ffffffffffffffff"),
    (M6_rnd, U384, 6, "fffffffffffffffebe4274f52c9353618fc5d126b76d5eeebb445d54e3c1f063ffffffffffffffff168f6641a0d6b803"),
    (M8_one, U512, 8, "00000000000000000000000000000000000000000000000000000000000000000000000000000000000000000000000000000000000000000000000000000001"),
    (M8_max, U512, 8, "ffffffffffffffffffffffffffffffffffffffffffffffffffffffffffffffffffffffffffffffffffffffffffffffffffffffffffffffffffffffffffffffff"),
    (M8_third, U512, 8, "55555555555555555555555555555555555555555555555555555555555555555555555555555555555555555555555555555555555555555555555555555555"),
    (M8_lowlimb, U512, 8, "0000000000000000000000000000000000000000000000000000000000000000000000000000000000000000000000000000000000000000ffffffffffffffff"),
    (M8_rnd, U512, 8, "fffffffffffffffefadb83b8d619f4797e2e8396238696a979b5d95234b3d6e7cb927c9fbcf7d13820faa937d6874d79fffffffffffffffff2fe0def54833e73"),
    (M16_max, U1024, 16, "ffffffffffffffffffffffffffffffffffffffffffffffffffffffffffffffffffffffffffffffffffffffffffffffffffffffffffffffffffffffffffffffffffffffffffffffffffffffffffffffffffffffffffffffffffffffffffffffffffffffffffffffffffffffffffffffffffffffffffffffffffffffffffffffff"),
    (M16_half1, U1024, 16, "8000000000000000000000000000000000000000000000000000000000000000000000000000000000000000000000000000000000000000000000000000000000000000000000000000000000000000000000000000000000000000000000000000000000000000000000000000000000000000000000000000000000000001"),
    (M16_lowlimb, U1024, 16, "000000000000000000000000000000000000000000000000000000000000000000000000000000000000000000000000000000000000000000000000000000000000000000000000000000000000000000000000000000000000000000000000000000000000000000000000000000000000000000000000ffffffffffffffff"),
    (M16_rnd, U1024, 16, "fffffffffffffffeba5256bc2b45fd41d3381e0dd66d9a50dd88230a12ff8f32911b6b948d05a9f567f9dd6fa256e0ab4f10ca472f2e1aa9f0b63c6734f4b613522c1e95e175aa96f8d23f24f36e4479766caf2a70e3022588646a80d19d3a277ff8c3e2da633daa40024a72c074c390ffffffffffffffff08a4f659f5d41121"),
    (M32_max, U2048, 32, "ffffffffffffffffffffffffffffffffffffffffffffffffffffffffffffffffffffffffffffffffffffffffffffffffffffffffffffffffffffffffffffffffffffffffffffffffffffffffffffffffffffffffffffffffffffffffffffffffffffffffffffffffffffffffffffffffffffffffffffffffffffffffffffffffffffffffffffffffffffffffffffffffffffffffffffffffffffffffffffffffffffffffffffffffffffffffffffffffffffffffffffffffffffffffffffffffffffffffffffffffffffffffffffffffffffffffffffffffffffffffffffffffffffffffffffffffffffffffffffffffffffffffffffffffffffffffffffffff"),
    (M32_half1, U2048, 32, "80000000000000000000000000000000000000000000000000000000000000000000000000000000000000000000000000000000000000000000000000000000000000000000000000000000000000000000000000000000000000000000000000000000000000000000000000000000000000000000000000000000000000000000000000000000000000000000000000000000000000000000000000000000000000000000000000000000000000000000000000000000000000000000000000000000000000000000000000000000000000000000000000000000000000000000000000000000000000000000000000000000000000000000000000000001"),
    (M32_lowlimb, U2048, 32, "0000000000000000000000000000000000000000000000000000000000000000000000000000000000000000000000000000000000000000000000000000000000000000000000000000000000000000000000000000000000000000000000000000000000000000000000000000000000000000000000000000000000000000000000000000000000000000000000000000000000000000000000000000000000000000000000000000000000000000000000000000000000000000000000000000000000000000000000000000000000000000000000000000000000000000000000000000000000000000000000000000000000000000ffffffffffffffff"),
    (M32_rnd, U2048, 32, "fffffffffffffffe9941f22093bc33f472c7f5ca791ae04b33d1e452184731180ac864a75b155f13dd2a9497d5527d643a52a7939f68335f7bdca583113871732fbca0dc8f019384fb3854dc4eb14514d00f502da95ab9f98f77407ec4f384247006d9f363f5353074b5ba4438e364b85d5e2fe7f5e2585c26ac154a81fa67d804c12529411a9ee919b489088acc2a3f207ff14274633d9b26df8665705287d78f7f05502f8d74873cafc7c68d7ab6eacc5137d7020564289fec479f375455f5bbf1e585ad560293c1c7c2d0f605dff2c2265a273d19faf3e7cade95cc9b9ffc6bad37cd4ae803e4d4573830cbe01cd0ffffffffffffffffcfb57e558b61f21f")
}


pub fn run(op: &str, a: &Args) -> Option<Out> {
    match op {
        "monty.params.const" | "monty.params.from_const" | "monty.params.boxed_from_const" | "monty.history.const"
        | "monty.history.const_dyn" | "monty.boxed_history.const_boxed" => return const_dispatch(op, a),
        "monty.boxed_params.new" => return params_from_debug(&format!("{:?}", boxed_params(ar(a, 0), 0)), ar(a, 0).len()),
        "monty.boxed_params.new_vartime" => return params_from_debug(&format!("{:?}", boxed_params(ar(a, 0), 1)), ar(a, 0).len()),
        "monty.boxed_params.trait" => return params_from_debug(&format!("{:?}", boxed_params(ar(a, 0), 2)), ar(a, 0).len()),
        "monty.boxed_history.boxed" => { let p = boxed_params(ar(a, 0), sc(a, 1)); return run_history::<BoxedMontyForm>(&p, a); }
        "monty.boxed_mul_mod" => return val1(bv(&bx(ar(a, 0)).mul_mod(&bx(ar(a, 1)), &bx(ar(a, 2))))),
        "monty.boxed_mul_mod.trait" => return val1(bv(&<BoxedUint as MulMod>::mul_mod(&bx(ar(a, 0)), &bx(ar(a, 1)), &bx(ar(a, 2))))),
        _ => {}
    }
    let n = if op == "monty.reduction" { ar(a, 2).len() } else { ar(a, 0).len() };
    match n {
        1 => dyn_width!(1, 2, op, a), 2 => dyn_width!(2, 4, op, a), 3 => dyn_width!(3, 6, op, a), 4 => dyn_width!(4, 8, op, a),
        6 => dyn_width!(6, 12, op, a), 8 => dyn_width!(8, 16, op, a), 16 => dyn_width!(16, 32, op, a), 32 => dyn_width!(32, 64, op, a),
        _ => None,
    }
}
