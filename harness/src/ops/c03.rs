//! C03 adapters: multiplication and squaring on Limb, Uint<N> (equal and mixed widths), BoxedUint.
use crate::util::*;
use crypto_bigint::{BoxedUint, Checked, CheckedMul, Limb, Uint, WideningMul, Wrapping, WrappingMul};

pub const OPS: &[&str] = &[
    "limb.wrapping_mul", "limb.wrapping_mul.trait", "limb.wrapping_mul.wrapper", "limb.saturating_mul", "limb.checked_mul",
    "limb.checked_mul.wrapper", "limb.mul", "limb.mul.ref",
    "uint.split_mul", "uint.widening_mul", "uint.widening_mul.trait", "uint.widening_mul.trait_ref",
    "uint.wrapping_mul", "uint.wrapping_mul.trait", "uint.wrapping_mul.wrapper", "uint.wrapping_mul.wrapper_ref",
    "uint.wrapping_mul.wrapper_assign", "uint.checked_mul", "uint.checked_mul.wrapper", "uint.saturating_mul",
    "uint.mul", "uint.mul.vr", "uint.mul.rv", "uint.mul.rr", "uint.mul.assign", "uint.mul.assign_ref",
    "uint.square_wide", "uint.widening_square", "uint.widening_square.square", "uint.wrapping_square", "uint.checked_square",
    "uint.saturating_square",
    "boxed.mul", "boxed.mul.op_vv", "boxed.mul.op_vr", "boxed.mul.op_rv", "boxed.mul.trait", "boxed.mul.trait_ref", "boxed.mul.assign", "boxed.mul.assign_ref",
    "boxed.mul_panicking.op_rr", "boxed.wrapping_mul", "boxed.wrapping_mul.trait", "boxed.wrapping_mul.wrapper", "boxed.wrapping_mul.wrapper_assign",
    "boxed.checked_mul", "boxed.square",
];

fn limb_ops(op: &str, a: &Args) -> Option<Out> {
    let x = Limb(sc(a, 0));
    let y = Limb(sc(a, 1));
    match op {
        "limb.wrapping_mul" => val1(lv(x.wrapping_mul(y))),
        "limb.wrapping_mul.trait" => val1(lv(WrappingMul::wrapping_mul(&x, &y))),
        "limb.wrapping_mul.wrapper" => val1(lv((Wrapping(x) * Wrapping(y)).0)),
        "limb.saturating_mul" => val1(lv(x.saturating_mul(y))),
        "limb.checked_mul" => ctopt(x.checked_mul(&y), |r| lv(*r)),
        "limb.checked_mul.wrapper" => ctopt((Checked::new(x) * Checked::new(y)).0, |r| lv(*r)),
        "limb.mul" => val1(lv(x * y)),
        "limb.mul.ref" => val1(lv(x * &y)),
        _ => None,
    }
}

fn uint_nm<const N: usize, const M: usize>(op: &str, a: &Args) -> Option<Out> {
    let x: Uint<N> = u(ar(a, 0));
    let y: Uint<M> = u(ar(a, 1));
    match op {
        "uint.split_mul" => { let (lo, hi) = x.split_mul(&y); val2(uv(&lo), uv(&hi)) }
        "uint.wrapping_mul" => val1(uv(&x.wrapping_mul(&y))),
        "uint.saturating_mul" => val1(uv(&x.saturating_mul(&y))),
        "uint.checked_mul" => ctopt(CheckedMul::checked_mul(&x, &y), uv),
        "uint.mul" => val1(uv(&(x * y))),
        "uint.mul.vr" => val1(uv(&(x * &y))),
        "uint.mul.rv" => val1(uv(&(&x * y))),
        "uint.mul.rr" => val1(uv(&(&x * &y))),
        _ => None,
    }
}

macro_rules! widen {
    ($x:expr, $y:expr, $op:expr, $W:literal) => {{
        match $op {
            "uint.widening_mul" => { let w: Uint<$W> = $x.widening_mul(&$y); val1(uv(&w)) }
            "uint.widening_mul.trait" => { let w: Uint<$W> = WideningMul::widening_mul(&$x, $y); val1(uv(&w)) }
            "uint.widening_mul.trait_ref" => { let w: Uint<$W> = WideningMul::widening_mul(&$x, &$y); val1(uv(&w)) }
            _ => None,
        }
    }};
}

fn uint_widening(op: &str, a: &Args) -> Option<Out> {
    let (n, m) = (ar(a, 0).len(), ar(a, 1).len());
    macro_rules! w {
        ($N:literal, $M:literal, $W:literal) => {{ let x: Uint<$N> = u(ar(a, 0)); let y: Uint<$M> = u(ar(a, 1)); widen!(x, y, op, $W) }};
    }
    match (n, m) {
        (1, 1) => w!(1, 1, 2), (2, 2) => w!(2, 2, 4), (3, 3) => w!(3, 3, 6), (4, 4) => w!(4, 4, 8), (8, 8) => w!(8, 8, 16),
        (16, 16) => w!(16, 16, 32), (32, 32) => w!(32, 32, 64), (64, 64) => w!(64, 64, 128),
        (1, 2) => w!(1, 2, 3), (2, 1) => w!(2, 1, 3), (1, 3) => w!(1, 3, 4), (3, 1) => w!(3, 1, 4),
        (2, 3) => w!(2, 3, 5), (4, 1) => w!(4, 1, 5), (7, 9) => w!(7, 9, 16), (9, 7) => w!(9, 7, 16), (15, 1) => w!(15, 1, 16),
        _ => None,
    }
}

fn uint_same<const N: usize>(op: &str, a: &Args) -> Option<Out> {
    let x: Uint<N> = u(ar(a, 0));
    match op {
        "uint.square_wide" => { let (lo, hi) = x.square_wide(); return val2(uv(&lo), uv(&hi)); }
        "uint.wrapping_square" => return val1(uv(&x.wrapping_square())),
        "uint.checked_square" => return cctopt(x.checked_square(), uv),
        "uint.saturating_square" => return val1(uv(&x.saturating_square())),
        _ => {}
    }
    let y: Uint<N> = u(ar(a, 1));
    match op {
        "uint.wrapping_mul.trait" => val1(uv(&WrappingMul::wrapping_mul(&x, &y))),
        "uint.wrapping_mul.wrapper" => val1(uv(&(Wrapping(x) * Wrapping(y)).0)),
        "uint.wrapping_mul.wrapper_ref" => val1(uv(&(&Wrapping(x) * &Wrapping(y)).0)),
        "uint.wrapping_mul.wrapper_assign" => { let mut w = Wrapping(x); w *= Wrapping(y); val1(uv(&w.0)) }
        "uint.checked_mul.wrapper" => ctopt((Checked::new(x) * Checked::new(y)).0, uv),
        "uint.mul.assign" => { let mut r = x; r *= y; val1(uv(&r)) }
        "uint.mul.assign_ref" => { let mut r = x; r *= &y; val1(uv(&r)) }
        _ => None,
    }
}

fn uint_wsq(op: &str, a: &Args) -> Option<Out> {
    macro_rules! s {
        ($N:literal, $W:literal) => {{
            let x: Uint<$N> = u(ar(a, 0));
            if op == "uint.widening_square" { let w: Uint<$W> = x.widening_square(); val1(uv(&w)) } else { let w: Uint<$W> = x.square(); val1(uv(&w)) }
        }};
    }
    match ar(a, 0).len() {
        1 => s!(1, 2), 2 => s!(2, 4), 3 => s!(3, 6), 4 => s!(4, 8), 8 => s!(8, 16), 16 => s!(16, 32), 32 => s!(32, 64), 64 => s!(64, 128),
        _ => None,
    }
}

fn boxed_ops(op: &str, a: &Args) -> Option<Out> {
    let x = bx(ar(a, 0));
    if op == "boxed.square" { return val1(bv(&x.square())); }
    let y = bx(ar(a, 1));
    match op {
        "boxed.mul" => val1(bv(&x.mul(&y))),
        "boxed.mul.op_vv" => val1(bv(&(x * y))),
        "boxed.mul.op_vr" => val1(bv(&(x * &y))),
        "boxed.mul.op_rv" => val1(bv(&(&x * y))),
        "boxed.mul.trait" => val1(bv(&WideningMul::widening_mul(&x, y))),
        "boxed.mul.trait_ref" => val1(bv(&WideningMul::widening_mul(&x, &y))),
        "boxed.mul.assign" => { let mut r = x; r *= y; val1(bv(&r)) }
        "boxed.mul.assign_ref" => { let mut r = x; r *= &y; val1(bv(&r)) }
        "boxed.mul_panicking.op_rr" => val1(bv(&(&x * &y))),
        "boxed.wrapping_mul" => val1(bv(&x.wrapping_mul(&y))),
        "boxed.wrapping_mul.trait" => val1(bv(&WrappingMul::wrapping_mul(&x, &y))),
        "boxed.wrapping_mul.wrapper" => val1(bv(&(Wrapping(x) * Wrapping(y)).0)),
        "boxed.wrapping_mul.wrapper_assign" => { let mut w = Wrapping(x); w *= Wrapping(y); val1(bv(&w.0)) }
        "boxed.checked_mul" => ctopt(x.checked_mul(&y), bv),
        _ => None,
    }
}

macro_rules! nm {
    ($n:expr, $m:expr, $op:expr, $a:expr, [$(($N:literal, $M:literal)),*]) => {
        match ($n, $m) {
            $( ($N, $M) => uint_nm::<$N, $M>($op, $a), )*
            _ => None,
        }
    };
}

pub fn run(op: &str, a: &Args) -> Option<Out> {
    if op.starts_with("limb.") { return limb_ops(op, a); }
    if op.starts_with("boxed.") { return boxed_ops(op, a); }
    if op.starts_with("uint.widening_mul") { return uint_widening(op, a); }
    if op == "uint.widening_square" || op == "uint.widening_square.square" { return uint_wsq(op, a); }
    let n = ar(a, 0).len();
    match op {
        "uint.split_mul" | "uint.wrapping_mul" | "uint.saturating_mul" | "uint.checked_mul" | "uint.mul" | "uint.mul.vr" | "uint.mul.rv" | "uint.mul.rr" => {
            let m = ar(a, 1).len();
            nm!(n, m, op, a, [(1, 1), (2, 2), (3, 3), (4, 4), (5, 5), (6, 6), (7, 7), (8, 8), (9, 9), (10, 10), (11, 11), (12, 12),
                (16, 16), (32, 32), (64, 64), (128, 128),
                (1, 2), (2, 1), (2, 4), (4, 2), (3, 5), (4, 8), (8, 4), (16, 8), (8, 16), (16, 32), (32, 16), (64, 32), (32, 64), (1, 16), (16, 1), (128, 64), (64, 128)])
        }
        _ => with_n!(n, [1, 2, 3, 4, 5, 6, 7, 8, 9, 10, 11, 12, 16, 32, 64, 128], uint_same, op, a),
    }
}
