use crate::util::*;
pub mod c04;

pub fn dispatch(op: &str, a: &Args) -> Option<Out> {
    if let Some(o) = c04::run(op, a) {
        return Some(o);
    }
    None
}
