//! C02 (continued) adapters: Uint::div_rem / BoxedUint::div_rem compared against the limb-level model
//! (Model/DivL0.v: limb-level `bits`, constant-time `shl` / `shr` ladder). Same Rust API as "uint.div_rem" /
//! "boxed.div_rem" in c02.rs; only the model op differs.
use crate::util::*;
use crypto_bigint::{BoxedUint, NonZero, Uint};

pub const OPS: &[&str] = &["uint.div_rem_l0", "boxed.div_rem_l0"];

fn nzu<const N: usize>(v: &[u64]) -> NonZero<Uint<N>> {
    Option::from(NonZero::new(u::<N>(v))).expect("harness: zero divisor")
}
fn nzb(v: &[u64]) -> NonZero<BoxedUint> {
    Option::from(NonZero::new(bx(v))).expect("harness: zero divisor")
}

fn uint_l0<const N: usize>(op: &str, a: &Args) -> Option<Out> {
    let x: Uint<N> = u(ar(a, 0));
    let y = nzu::<N>(ar(a, 1));
    match op {
        "uint.div_rem_l0" => { let (q, r) = x.div_rem(&y); val2(uv(&q), uv(&r)) }
        _ => None,
    }
}

pub fn run(op: &str, a: &Args) -> Option<Out> {
    match op {
        "boxed.div_rem_l0" => {
            let x = bx(ar(a, 0));
            let y = nzb(ar(a, 1));
            let (q, r) = x.div_rem(&y);
            val2(bv(&q), bv(&r))
        }
        "uint.div_rem_l0" => {
            let n = ar(a, 0).len();
            with_n!(n, [1, 2, 3, 4, 6, 8, 16, 32, 64], uint_l0, op, a)
        }
        _ => None,
    }
}
