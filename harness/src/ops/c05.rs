//! C05 adapters: shifts, bit queries and bitwise operators on Limb, Uint<N>, Int<N>, BoxedUint.
//! Rust-op names: `<type>.<method>[.<route>]`; the generator supplies the model op explicitly.
use crate::util::*;
use crypto_bigint::{
    BitOps, BoxedUint, Int, Limb, ShlVartime, ShrVartime, Uint, Wrapping, WrappingShl, WrappingShr,
};

// ---------------------------------------------------------------- op list
const SHIFT_PANIC_ROUTES: &[&str] = &[
    "", ".op_u32", ".op_i32", ".op_usize", ".op_ref_u32", ".op_ref_i32", ".op_ref_usize", ".assign_u32",
    ".assign_i32", ".assign_usize",
];

pub const OPS: &[&str] = &[
    // ---- Limb
    "limb.shl", "limb.shl.op_u32", "limb.shl.op_i32", "limb.shl.op_usize", "limb.shl.op_ref_u32",
    "limb.shl.op_ref_i32", "limb.shl.op_ref_usize", "limb.shl.assign_u32", "limb.shl.assign_i32",
    "limb.shl.assign_usize",
    "limb.shr", "limb.shr.op_u32", "limb.shr.op_i32", "limb.shr.op_usize", "limb.shr.op_ref_u32",
    "limb.shr.op_ref_i32", "limb.shr.op_ref_usize", "limb.shr.assign_u32", "limb.shr.assign_i32",
    "limb.shr.assign_usize",
    "limb.wrapping_shl", "limb.wrapping_shl.wrapper", "limb.wrapping_shl.wrapper_ref",
    "limb.wrapping_shr", "limb.wrapping_shr.wrapper", "limb.wrapping_shr.wrapper_ref",
    "limb.bits", "limb.leading_zeros", "limb.trailing_zeros", "limb.trailing_ones",
    "limb.and", "limb.and.op", "limb.and.assign_v", "limb.and.assign_r",
    "limb.or", "limb.or.op", "limb.or.assign_v", "limb.or.assign_r",
    "limb.xor", "limb.xor.op", "limb.xor.assign_v",
    "limb.not", "limb.not.op",
    // ---- Uint shifts
    "uint.overflowing_shl", "uint.overflowing_shl.trait_vartime", "uint.overflowing_shl_vartime",
    "uint.shl", "uint.shl.op_u32", "uint.shl.op_i32", "uint.shl.op_usize", "uint.shl.op_ref_u32",
    "uint.shl.op_ref_i32", "uint.shl.op_ref_usize", "uint.shl.assign_u32", "uint.shl.assign_i32",
    "uint.shl.assign_usize", "uint.shl_vartime",
    "uint.wrapping_shl", "uint.wrapping_shl.trait", "uint.wrapping_shl.trait_vartime",
    "uint.wrapping_shl.wrapper", "uint.wrapping_shl.wrapper_ref", "uint.wrapping_shl_vartime",
    "uint.shl_vartime_wide",
    "uint.overflowing_shr", "uint.overflowing_shr.trait_vartime", "uint.overflowing_shr_vartime",
    "uint.shr", "uint.shr.op_u32", "uint.shr.op_i32", "uint.shr.op_usize", "uint.shr.op_ref_u32",
    "uint.shr.op_ref_i32", "uint.shr.op_ref_usize", "uint.shr.assign_u32", "uint.shr.assign_i32",
    "uint.shr.assign_usize", "uint.shr_vartime",
    "uint.wrapping_shr", "uint.wrapping_shr.trait", "uint.wrapping_shr.trait_vartime",
    "uint.wrapping_shr.wrapper", "uint.wrapping_shr.wrapper_ref", "uint.wrapping_shr_vartime",
    "uint.shr_vartime_wide",
    // ---- Int shifts
    "int.overflowing_shl", "int.overflowing_shl.trait_vartime", "int.overflowing_shl_vartime",
    "int.shl", "int.shl.op_u32", "int.shl.op_i32", "int.shl.op_usize", "int.shl.op_ref_u32",
    "int.shl.op_ref_i32", "int.shl.op_ref_usize", "int.shl.assign_u32", "int.shl.assign_i32",
    "int.shl.assign_usize", "int.shl_vartime",
    "int.wrapping_shl", "int.wrapping_shl.trait", "int.wrapping_shl.trait_vartime",
    "int.wrapping_shl.wrapper", "int.wrapping_shl.wrapper_ref", "int.wrapping_shl_vartime",
    "int.overflowing_shr", "int.overflowing_shr.trait_vartime", "int.overflowing_shr_vartime",
    "int.shr", "int.shr.op_u32", "int.shr.op_i32", "int.shr.op_usize", "int.shr.op_ref_u32",
    "int.shr.op_ref_i32", "int.shr.op_ref_usize", "int.shr.assign_u32", "int.shr.assign_i32",
    "int.shr.assign_usize", "int.shr_vartime",
    "int.wrapping_shr", "int.wrapping_shr.trait", "int.wrapping_shr.trait_vartime",
    "int.wrapping_shr.wrapper", "int.wrapping_shr.wrapper_ref", "int.wrapping_shr_vartime",
    // ---- BoxedUint shifts
    "boxed.overflowing_shl", "boxed.overflowing_shl.assign", "boxed.overflowing_shl_opt.trait_vartime",
    "boxed.shl", "boxed.shl.assign_inherent", "boxed.shl.op_u32", "boxed.shl.op_i32", "boxed.shl.op_usize",
    "boxed.shl.op_ref_u32", "boxed.shl.op_ref_i32", "boxed.shl.op_ref_usize", "boxed.shl.assign_u32",
    "boxed.shl.assign_i32", "boxed.shl.assign_usize",
    "boxed.wrapping_shl", "boxed.wrapping_shl.trait", "boxed.wrapping_shl.trait_vartime",
    "boxed.wrapping_shl.wrapper", "boxed.wrapping_shl.wrapper_ref",
    "boxed.shl_vartime", "boxed.wrapping_shl_vartime",
    "boxed.overflowing_shr", "boxed.overflowing_shr.assign", "boxed.overflowing_shr_opt.trait_vartime",
    "boxed.shr", "boxed.shr.assign_inherent", "boxed.shr.op_u32", "boxed.shr.op_i32", "boxed.shr.op_usize",
    "boxed.shr.op_ref_u32", "boxed.shr.op_ref_i32", "boxed.shr.op_ref_usize", "boxed.shr.assign_u32",
    "boxed.shr.assign_i32", "boxed.shr.assign_usize",
    "boxed.wrapping_shr", "boxed.wrapping_shr.trait", "boxed.wrapping_shr.trait_vartime",
    "boxed.wrapping_shr.wrapper", "boxed.wrapping_shr.wrapper_ref",
    "boxed.shr_vartime", "boxed.wrapping_shr_vartime",
    // ---- bit queries
    "uint.bit", "uint.bit.trait", "uint.bit_vartime", "uint.bit_vartime.trait",
    "uint.bits", "uint.bits.trait", "uint.bits_vartime", "uint.bits_vartime.trait",
    "uint.leading_zeros", "uint.leading_zeros.trait", "uint.leading_zeros_vartime",
    "uint.leading_zeros_vartime.trait",
    "uint.trailing_zeros", "uint.trailing_zeros.trait", "uint.trailing_zeros_vartime",
    "uint.trailing_zeros_vartime.trait",
    "uint.trailing_ones", "uint.trailing_ones.trait", "uint.trailing_ones_vartime",
    "uint.trailing_ones_vartime.trait",
    "uint.set_bit.trait", "uint.set_bit_vartime.trait",
    "boxed.bit", "boxed.bit.trait", "boxed.bit_vartime", "boxed.bit_vartime.trait",
    "boxed.bits", "boxed.bits.trait", "boxed.bits_vartime", "boxed.bits_vartime.trait",
    "boxed.leading_zeros", "boxed.leading_zeros.trait", "boxed.leading_zeros_vartime.trait",
    "boxed.trailing_zeros", "boxed.trailing_zeros.trait", "boxed.trailing_zeros_vartime",
    "boxed.trailing_zeros_vartime.trait",
    "boxed.trailing_ones", "boxed.trailing_ones.trait", "boxed.trailing_ones_vartime",
    "boxed.trailing_ones_vartime.trait",
    "boxed.set_bit.trait", "boxed.set_bit_vartime.trait",
    // ---- bitwise operators
    "uint.and", "uint.and.wrapping", "uint.and.checked", "uint.and.op_vv", "uint.and.op_vr", "uint.and.op_rv",
    "uint.and.op_rr", "uint.and.assign_v", "uint.and.assign_r", "uint.and.wrapper_vv", "uint.and.wrapper_vr",
    "uint.and.wrapper_rv", "uint.and.wrapper_rr", "uint.and.wrapper_assign_v", "uint.and.wrapper_assign_r",
    "uint.or", "uint.or.wrapping", "uint.or.checked", "uint.or.op_vv", "uint.or.op_vr", "uint.or.op_rv",
    "uint.or.op_rr", "uint.or.assign_v", "uint.or.assign_r", "uint.or.wrapper_vv", "uint.or.wrapper_vr",
    "uint.or.wrapper_rv", "uint.or.wrapper_rr", "uint.or.wrapper_assign_v", "uint.or.wrapper_assign_r",
    "uint.xor", "uint.xor.wrapping", "uint.xor.checked", "uint.xor.op_vv", "uint.xor.op_vr", "uint.xor.op_rv",
    "uint.xor.op_rr", "uint.xor.assign_v", "uint.xor.assign_r", "uint.xor.wrapper_vv", "uint.xor.wrapper_vr",
    "uint.xor.wrapper_rv", "uint.xor.wrapper_rr", "uint.xor.wrapper_assign_v", "uint.xor.wrapper_assign_r",
    "uint.not", "uint.not.op", "uint.not.wrapper", "uint.and_limb",
    "int.and", "int.and.wrapping", "int.and.checked", "int.and.op_vv", "int.and.op_vr", "int.and.op_rv",
    "int.and.op_rr", "int.and.assign_v", "int.and.assign_r", "int.and.wrapper_vv", "int.and.wrapper_vr",
    "int.and.wrapper_rv", "int.and.wrapper_rr", "int.and.wrapper_assign_v", "int.and.wrapper_assign_r",
    "int.or", "int.or.wrapping", "int.or.checked", "int.or.op_vv", "int.or.op_vr", "int.or.op_rv",
    "int.or.op_rr", "int.or.assign_v", "int.or.assign_r", "int.or.wrapper_vv", "int.or.wrapper_vr",
    "int.or.wrapper_rv", "int.or.wrapper_rr", "int.or.wrapper_assign_v", "int.or.wrapper_assign_r",
    "int.xor", "int.xor.wrapping", "int.xor.checked", "int.xor.op_vv", "int.xor.op_vr", "int.xor.op_rv",
    "int.xor.op_rr", "int.xor.assign_v", "int.xor.assign_r", "int.xor.wrapper_vv", "int.xor.wrapper_vr",
    "int.xor.wrapper_rv", "int.xor.wrapper_rr", "int.xor.wrapper_assign_v", "int.xor.wrapper_assign_r",
    "int.not", "int.not.op", "int.not.wrapper", "int.and_limb",
    "boxed.and", "boxed.and.wrapping", "boxed.and.checked", "boxed.and.op_vv", "boxed.and.op_vr",
    "boxed.and.op_rv", "boxed.and.op_rr", "boxed.and.assign_v", "boxed.and.assign_r", "boxed.and.wrapper_vv",
    "boxed.and.wrapper_vr", "boxed.and.wrapper_rv", "boxed.and.wrapper_rr", "boxed.and.wrapper_assign_v",
    "boxed.and.wrapper_assign_r",
    "boxed.or", "boxed.or.wrapping", "boxed.or.checked", "boxed.or.op_vv", "boxed.or.op_vr",
    "boxed.or.op_rv", "boxed.or.op_rr", "boxed.or.assign_v", "boxed.or.assign_r", "boxed.or.wrapper_vv",
    "boxed.or.wrapper_vr", "boxed.or.wrapper_rv", "boxed.or.wrapper_rr", "boxed.or.wrapper_assign_v",
    "boxed.or.wrapper_assign_r",
    "boxed.xor", "boxed.xor.wrapping", "boxed.xor.checked", "boxed.xor.op_vv", "boxed.xor.op_vr",
    "boxed.xor.op_rv", "boxed.xor.op_rr", "boxed.xor.assign_v", "boxed.xor.assign_r", "boxed.xor.wrapper_vv",
    "boxed.xor.wrapper_vr", "boxed.xor.wrapper_rv", "boxed.xor.wrapper_rr", "boxed.xor.wrapper_assign_v",
    "boxed.xor.wrapper_assign_r",
    "boxed.not", "boxed.not.op", "boxed.not.wrapper", "boxed.and_limb",
];

fn s_u32(a: &Args, i: usize) -> Option<u32> {
    u32::try_from(sc(a, i)).ok()
}
fn s_i32(a: &Args, i: usize) -> Option<i32> {
    i32::try_from(sc(a, i)).ok()
}
fn s_usize(a: &Args, i: usize) -> usize {
    sc(a, i) as usize
}
fn u32v(x: u32) -> Vec<u64> {
    vec![x as u64]
}

/// The ten panicking shift routes (inherent, operator by value / by reference / assigning; u32, i32, usize).
/// `$x` must be `Clone`; `$out` converts the result.
macro_rules! shift_panic_routes {
    ($route:expr, $a:expr, $x:expr, $inh:ident, $op:tt, $opa:tt, $out:expr) => {{
        let x = $x;
        match $route {
            "" => { let r = x.$inh(s_u32($a, 1)?); val1($out(&r)) }
            ".op_u32" => { let r = x $op s_u32($a, 1)?; val1($out(&r)) }
            ".op_i32" => { let r = x $op s_i32($a, 1)?; val1($out(&r)) }
            ".op_usize" => { let r = x $op s_usize($a, 1); val1($out(&r)) }
            ".op_ref_u32" => { let r = &x $op s_u32($a, 1)?; val1($out(&r)) }
            ".op_ref_i32" => { let r = &x $op s_i32($a, 1)?; val1($out(&r)) }
            ".op_ref_usize" => { let r = &x $op s_usize($a, 1); val1($out(&r)) }
            ".assign_u32" => { let mut r = x; r $opa s_u32($a, 1)?; val1($out(&r)) }
            ".assign_i32" => { let mut r = x; r $opa s_i32($a, 1)?; val1($out(&r)) }
            ".assign_usize" => { let mut r = x; r $opa s_usize($a, 1); val1($out(&r)) }
            _ => None,
        }
    }};
}

/// The fifteen routes of a binary bitwise operator.
macro_rules! bitwise_routes {
    ($route:expr, $x:expr, $y:expr, $inh:ident, $wr:ident, $ck:ident, $op:tt, $opa:tt, $out:expr, $ckout:expr) => {{
        let x = $x;
        let y = $y;
        match $route {
            "" => val1($out(&x.$inh(&y))),
            ".wrapping" => val1($out(&x.$wr(&y))),
            ".checked" => $ckout(x.$ck(&y)),
            ".op_vv" => val1($out(&(x $op y))),
            ".op_vr" => val1($out(&(x $op &y))),
            ".op_rv" => val1($out(&(&x $op y))),
            ".op_rr" => val1($out(&(&x $op &y))),
            ".assign_v" => { let mut r = x; r $opa y; val1($out(&r)) }
            ".assign_r" => { let mut r = x; r $opa &y; val1($out(&r)) }
            ".wrapper_vv" => val1($out(&(Wrapping(x) $op Wrapping(y)).0)),
            ".wrapper_vr" => val1($out(&(Wrapping(x) $op &Wrapping(y)).0)),
            ".wrapper_rv" => val1($out(&(&Wrapping(x) $op Wrapping(y)).0)),
            ".wrapper_rr" => val1($out(&(&Wrapping(x) $op &Wrapping(y)).0)),
            ".wrapper_assign_v" => { let mut r = Wrapping(x); r $opa Wrapping(y); val1($out(&r.0)) }
            ".wrapper_assign_r" => { let mut r = Wrapping(x); r $opa &Wrapping(y); val1($out(&r.0)) }
            _ => None,
        }
    }};
}

fn split(op: &str) -> (&str, &str) {
    // "<type>.<method>" + route (possibly empty, starting with '.')
    let first = op.find('.').unwrap_or(op.len());
    match op[first + 1..].find('.') {
        Some(k) => (&op[..first + 1 + k], &op[first + 1 + k..]),
        None => (op, ""),
    }
}

// ---------------------------------------------------------------- Limb
fn lvr(x: &Limb) -> Vec<u64> {
    vec![x.0]
}
fn limb_ops(op: &str, a: &Args) -> Option<Out> {
    let x = Limb(sc(a, 0));
    let (base, route) = split(op);
    match base {
        "limb.shl" => shift_panic_routes!(route, a, x, shl, <<, <<=, lvr),
        "limb.shr" => shift_panic_routes!(route, a, x, shr, >>, >>=, lvr),
        "limb.wrapping_shl" => match route {
            "" => val1(lv(WrappingShl::wrapping_shl(&x, s_u32(a, 1)?))),
            ".wrapper" => val1(lv((Wrapping(x) << s_u32(a, 1)?).0)),
            ".wrapper_ref" => val1(lv((&Wrapping(x) << s_u32(a, 1)?).0)),
            _ => None,
        },
        "limb.wrapping_shr" => match route {
            "" => val1(lv(WrappingShr::wrapping_shr(&x, s_u32(a, 1)?))),
            ".wrapper" => val1(lv((Wrapping(x) >> s_u32(a, 1)?).0)),
            ".wrapper_ref" => val1(lv((&Wrapping(x) >> s_u32(a, 1)?).0)),
            _ => None,
        },
        "limb.bits" => val1(u32v(x.bits())),
        "limb.leading_zeros" => val1(u32v(x.leading_zeros())),
        "limb.trailing_zeros" => val1(u32v(x.trailing_zeros())),
        "limb.trailing_ones" => val1(u32v(x.trailing_ones())),
        "limb.not" => match route {
            "" => val1(lv(x.not())),
            ".op" => val1(lv(!x)),
            _ => None,
        },
        _ => {
            let y = Limb(sc(a, 1));
            match (base, route) {
                ("limb.and", "") => val1(lv(x.bitand(y))),
                ("limb.and", ".op") => val1(lv(x & y)),
                ("limb.and", ".assign_v") => { let mut r = x; r &= y; val1(lv(r)) }
                ("limb.and", ".assign_r") => { let mut r = x; r &= &y; val1(lv(r)) }
                ("limb.or", "") => val1(lv(x.bitor(y))),
                ("limb.or", ".op") => val1(lv(x | y)),
                ("limb.or", ".assign_v") => { let mut r = x; r |= y; val1(lv(r)) }
                ("limb.or", ".assign_r") => { let mut r = x; r |= &y; val1(lv(r)) }
                ("limb.xor", "") => val1(lv(x.bitxor(y))),
                ("limb.xor", ".op") => val1(lv(x ^ y)),
                ("limb.xor", ".assign_v") => { let mut r = x; r ^= y; val1(lv(r)) }
                _ => None,
            }
        }
    }
}

// ---------------------------------------------------------------- Uint<N>
fn ck_ct<T>(f: impl Fn(&T) -> Vec<u64>) -> impl Fn(subtle::CtOption<T>) -> Option<Out> {
    move |o| ctopt(o, &f)
}
fn ck_cct<T>(f: impl Fn(&T) -> Vec<u64>) -> impl Fn(crypto_bigint::ConstCtOption<T>) -> Option<Out> {
    move |o| cctopt(o, &f)
}

fn uint_ops<const N: usize>(op: &str, a: &Args) -> Option<Out> {
    let x: Uint<N> = u(ar(a, 0));
    let (base, route) = split(op);
    match base {
        // shifts
        "uint.overflowing_shl" => match route {
            "" => cctopt(x.overflowing_shl(s_u32(a, 1)?), uv),
            ".trait_vartime" => ctopt(ShlVartime::overflowing_shl_vartime(&x, s_u32(a, 1)?), uv),
            _ => None,
        },
        "uint.overflowing_shr" => match route {
            "" => cctopt(x.overflowing_shr(s_u32(a, 1)?), uv),
            ".trait_vartime" => ctopt(ShrVartime::overflowing_shr_vartime(&x, s_u32(a, 1)?), uv),
            _ => None,
        },
        "uint.overflowing_shl_vartime" => cctopt(x.overflowing_shl_vartime(s_u32(a, 1)?), uv),
        "uint.overflowing_shr_vartime" => cctopt(x.overflowing_shr_vartime(s_u32(a, 1)?), uv),
        "uint.shl" => shift_panic_routes!(route, a, x, shl, <<, <<=, uv),
        "uint.shr" => shift_panic_routes!(route, a, x, shr, >>, >>=, uv),
        "uint.shl_vartime" => val1(uv(&x.shl_vartime(s_u32(a, 1)?))),
        "uint.shr_vartime" => val1(uv(&x.shr_vartime(s_u32(a, 1)?))),
        "uint.wrapping_shl" => match route {
            "" => val1(uv(&x.wrapping_shl(s_u32(a, 1)?))),
            ".trait" => val1(uv(&WrappingShl::wrapping_shl(&x, s_u32(a, 1)?))),
            ".trait_vartime" => val1(uv(&ShlVartime::wrapping_shl_vartime(&x, s_u32(a, 1)?))),
            ".wrapper" => val1(uv(&(Wrapping(x) << s_u32(a, 1)?).0)),
            ".wrapper_ref" => val1(uv(&(&Wrapping(x) << s_u32(a, 1)?).0)),
            _ => None,
        },
        "uint.wrapping_shr" => match route {
            "" => val1(uv(&x.wrapping_shr(s_u32(a, 1)?))),
            ".trait" => val1(uv(&WrappingShr::wrapping_shr(&x, s_u32(a, 1)?))),
            ".trait_vartime" => val1(uv(&ShrVartime::wrapping_shr_vartime(&x, s_u32(a, 1)?))),
            ".wrapper" => val1(uv(&(Wrapping(x) >> s_u32(a, 1)?).0)),
            ".wrapper_ref" => val1(uv(&(&Wrapping(x) >> s_u32(a, 1)?).0)),
            _ => None,
        },
        "uint.wrapping_shl_vartime" => val1(uv(&x.wrapping_shl_vartime(s_u32(a, 1)?))),
        "uint.wrapping_shr_vartime" => val1(uv(&x.wrapping_shr_vartime(s_u32(a, 1)?))),
        "uint.shl_vartime_wide" => {
            let hi: Uint<N> = u(ar(a, 1));
            let o: Option<(Uint<N>, Uint<N>)> = Uint::overflowing_shl_vartime_wide((x, hi), s_u32(a, 2)?).into();
            match o {
                Some((l, h)) => val2(uv(&l), uv(&h)),
                None => Some(Out::None),
            }
        }
        "uint.shr_vartime_wide" => {
            let hi: Uint<N> = u(ar(a, 1));
            let o: Option<(Uint<N>, Uint<N>)> = Uint::overflowing_shr_vartime_wide((x, hi), s_u32(a, 2)?).into();
            match o {
                Some((l, h)) => val2(uv(&l), uv(&h)),
                None => Some(Out::None),
            }
        }
        // bit queries
        "uint.bit" => match route {
            "" => val1(cc(x.bit(s_u32(a, 1)?))),
            ".trait" => val1(ch(BitOps::bit(&x, s_u32(a, 1)?))),
            _ => None,
        },
        "uint.bit_vartime" => match route {
            "" => val1(bl(x.bit_vartime(s_u32(a, 1)?))),
            ".trait" => val1(bl(BitOps::bit_vartime(&x, s_u32(a, 1)?))),
            _ => None,
        },
        "uint.bits" => match route {
            "" => val1(u32v(x.bits())),
            ".trait" => val1(u32v(BitOps::bits(&x))),
            _ => None,
        },
        "uint.bits_vartime" => match route {
            "" => val1(u32v(x.bits_vartime())),
            ".trait" => val1(u32v(BitOps::bits_vartime(&x))),
            _ => None,
        },
        "uint.leading_zeros" => match route {
            "" => val1(u32v(x.leading_zeros())),
            ".trait" => val1(u32v(BitOps::leading_zeros(&x))),
            _ => None,
        },
        "uint.leading_zeros_vartime" => match route {
            "" => val1(u32v(x.leading_zeros_vartime())),
            ".trait" => val1(u32v(BitOps::leading_zeros_vartime(&x))),
            _ => None,
        },
        "uint.trailing_zeros" => match route {
            "" => val1(u32v(x.trailing_zeros())),
            ".trait" => val1(u32v(BitOps::trailing_zeros(&x))),
            _ => None,
        },
        "uint.trailing_zeros_vartime" => match route {
            "" => val1(u32v(x.trailing_zeros_vartime())),
            ".trait" => val1(u32v(BitOps::trailing_zeros_vartime(&x))),
            _ => None,
        },
        "uint.trailing_ones" => match route {
            "" => val1(u32v(x.trailing_ones())),
            ".trait" => val1(u32v(BitOps::trailing_ones(&x))),
            _ => None,
        },
        "uint.trailing_ones_vartime" => match route {
            "" => val1(u32v(x.trailing_ones_vartime())),
            ".trait" => val1(u32v(BitOps::trailing_ones_vartime(&x))),
            _ => None,
        },
        "uint.set_bit" => { let mut r = x; BitOps::set_bit(&mut r, s_u32(a, 1)?, choice(sc(a, 2))); val1(uv(&r)) }
        "uint.set_bit_vartime" => { let mut r = x; BitOps::set_bit_vartime(&mut r, s_u32(a, 1)?, sc(a, 2) != 0); val1(uv(&r)) }
        // bitwise
        "uint.not" => match route {
            "" => val1(uv(&x.not())),
            ".op" => val1(uv(&!x)),
            ".wrapper" => val1(uv(&(!Wrapping(x)).0)),
            _ => None,
        },
        "uint.and_limb" => val1(uv(&x.bitand_limb(Limb(sc(a, 1))))),
        "uint.and" => bitwise_routes!(route, x, u::<N>(ar(a, 1)), bitand, wrapping_and, checked_and, &, &=, uv, ck_ct(uv)),
        "uint.or" => bitwise_routes!(route, x, u::<N>(ar(a, 1)), bitor, wrapping_or, checked_or, |, |=, uv, ck_ct(uv)),
        "uint.xor" => bitwise_routes!(route, x, u::<N>(ar(a, 1)), bitxor, wrapping_xor, checked_xor, ^, ^=, uv, ck_ct(uv)),
        _ => None,
    }
}

// ---------------------------------------------------------------- Int<N>
fn int_ops<const N: usize>(op: &str, a: &Args) -> Option<Out> {
    let x: Int<N> = si(ar(a, 0));
    let (base, route) = split(op);
    match base {
        "int.overflowing_shl" => match route {
            "" => cctopt(x.overflowing_shl(s_u32(a, 1)?), iv),
            ".trait_vartime" => ctopt(ShlVartime::overflowing_shl_vartime(&x, s_u32(a, 1)?), iv),
            _ => None,
        },
        "int.overflowing_shr" => match route {
            "" => cctopt(x.overflowing_shr(s_u32(a, 1)?), iv),
            ".trait_vartime" => ctopt(ShrVartime::overflowing_shr_vartime(&x, s_u32(a, 1)?), iv),
            _ => None,
        },
        "int.overflowing_shl_vartime" => cctopt(x.overflowing_shl_vartime(s_u32(a, 1)?), iv),
        "int.overflowing_shr_vartime" => cctopt(x.overflowing_shr_vartime(s_u32(a, 1)?), iv),
        "int.shl" => shift_panic_routes!(route, a, x, shl, <<, <<=, iv),
        "int.shr" => shift_panic_routes!(route, a, x, shr, >>, >>=, iv),
        "int.shl_vartime" => val1(iv(&x.shl_vartime(s_u32(a, 1)?))),
        "int.shr_vartime" => val1(iv(&x.shr_vartime(s_u32(a, 1)?))),
        "int.wrapping_shl" => match route {
            "" => val1(iv(&x.wrapping_shl(s_u32(a, 1)?))),
            ".trait" => val1(iv(&WrappingShl::wrapping_shl(&x, s_u32(a, 1)?))),
            ".trait_vartime" => val1(iv(&ShlVartime::wrapping_shl_vartime(&x, s_u32(a, 1)?))),
            ".wrapper" => val1(iv(&(Wrapping(x) << s_u32(a, 1)?).0)),
            ".wrapper_ref" => val1(iv(&(&Wrapping(x) << s_u32(a, 1)?).0)),
            _ => None,
        },
        "int.wrapping_shr" => match route {
            "" => val1(iv(&x.wrapping_shr(s_u32(a, 1)?))),
            ".trait" => val1(iv(&WrappingShr::wrapping_shr(&x, s_u32(a, 1)?))),
            ".trait_vartime" => val1(iv(&ShrVartime::wrapping_shr_vartime(&x, s_u32(a, 1)?))),
            ".wrapper" => val1(iv(&(Wrapping(x) >> s_u32(a, 1)?).0)),
            ".wrapper_ref" => val1(iv(&(&Wrapping(x) >> s_u32(a, 1)?).0)),
            _ => None,
        },
        "int.wrapping_shl_vartime" => val1(iv(&x.wrapping_shl_vartime(s_u32(a, 1)?))),
        "int.wrapping_shr_vartime" => val1(iv(&x.wrapping_shr_vartime(s_u32(a, 1)?))),
        "int.not" => match route {
            "" => val1(iv(&x.not())),
            ".op" => val1(iv(&!x)),
            ".wrapper" => val1(iv(&(!Wrapping(x)).0)),
            _ => None,
        },
        "int.and_limb" => val1(iv(&x.bitand_limb(Limb(sc(a, 1))))),
        "int.and" => bitwise_routes!(route, x, si::<N>(ar(a, 1)), bitand, wrapping_and, checked_and, &, &=, iv, ck_cct(iv)),
        "int.or" => bitwise_routes!(route, x, si::<N>(ar(a, 1)), bitor, wrapping_or, checked_or, |, |=, iv, ck_cct(iv)),
        "int.xor" => bitwise_routes!(route, x, si::<N>(ar(a, 1)), bitxor, wrapping_xor, checked_xor, ^, ^=, iv, ck_cct(iv)),
        _ => None,
    }
}

// ---------------------------------------------------------------- BoxedUint
fn boxed_ops(op: &str, a: &Args) -> Option<Out> {
    let x = bx(ar(a, 0));
    let (base, route) = split(op);
    match base {
        "boxed.overflowing_shl" => match route {
            "" => { let (r, c) = x.overflowing_shl(s_u32(a, 1)?); val2(bv(&r), ch(c)) }
            ".assign" => { let mut r = x; let c = r.overflowing_shl_assign(s_u32(a, 1)?); val2(bv(&r), ch(c)) }
            _ => None,
        },
        "boxed.overflowing_shr" => match route {
            "" => { let (r, c) = x.overflowing_shr(s_u32(a, 1)?); val2(bv(&r), ch(c)) }
            ".assign" => { let mut r = x; let c = r.overflowing_shr_assign(s_u32(a, 1)?); val2(bv(&r), ch(c)) }
            _ => None,
        },
        "boxed.overflowing_shl_opt" => ctopt(ShlVartime::overflowing_shl_vartime(&x, s_u32(a, 1)?), bv),
        "boxed.overflowing_shr_opt" => ctopt(ShrVartime::overflowing_shr_vartime(&x, s_u32(a, 1)?), bv),
        "boxed.shl" => match route {
            ".assign_inherent" => { let mut r = x; BoxedUint::shl_assign(&mut r, s_u32(a, 1)?); val1(bv(&r)) }
            _ => shift_panic_routes!(route, a, x.clone(), shl, <<, <<=, bv),
        },
        "boxed.shr" => match route {
            ".assign_inherent" => { let mut r = x; BoxedUint::shr_assign(&mut r, s_u32(a, 1)?); val1(bv(&r)) }
            _ => shift_panic_routes!(route, a, x.clone(), shr, >>, >>=, bv),
        },
        "boxed.wrapping_shl" => match route {
            "" => val1(bv(&x.wrapping_shl(s_u32(a, 1)?))),
            ".trait" => val1(bv(&WrappingShl::wrapping_shl(&x, s_u32(a, 1)?))),
            ".trait_vartime" => val1(bv(&ShlVartime::wrapping_shl_vartime(&x, s_u32(a, 1)?))),
            ".wrapper" => val1(bv(&(Wrapping(x) << s_u32(a, 1)?).0)),
            ".wrapper_ref" => val1(bv(&(&Wrapping(x) << s_u32(a, 1)?).0)),
            _ => None,
        },
        "boxed.wrapping_shr" => match route {
            "" => val1(bv(&x.wrapping_shr(s_u32(a, 1)?))),
            ".trait" => val1(bv(&WrappingShr::wrapping_shr(&x, s_u32(a, 1)?))),
            ".trait_vartime" => val1(bv(&ShrVartime::wrapping_shr_vartime(&x, s_u32(a, 1)?))),
            ".wrapper" => val1(bv(&(Wrapping(x) >> s_u32(a, 1)?).0)),
            ".wrapper_ref" => val1(bv(&(&Wrapping(x) >> s_u32(a, 1)?).0)),
            _ => None,
        },
        "boxed.shl_vartime" => match x.shl_vartime(s_u32(a, 1)?) { Some(r) => val1(bv(&r)), None => Some(Out::None) },
        "boxed.shr_vartime" => match x.shr_vartime(s_u32(a, 1)?) { Some(r) => val1(bv(&r)), None => Some(Out::None) },
        "boxed.wrapping_shl_vartime" => val1(bv(&x.wrapping_shl_vartime(s_u32(a, 1)?))),
        "boxed.wrapping_shr_vartime" => val1(bv(&x.wrapping_shr_vartime(s_u32(a, 1)?))),
        // bit queries
        "boxed.bit" => match route {
            "" => val1(ch(x.bit(s_u32(a, 1)?))),
            ".trait" => val1(ch(BitOps::bit(&x, s_u32(a, 1)?))),
            _ => None,
        },
        "boxed.bit_vartime" => match route {
            "" => val1(bl(x.bit_vartime(s_u32(a, 1)?))),
            ".trait" => val1(bl(BitOps::bit_vartime(&x, s_u32(a, 1)?))),
            _ => None,
        },
        "boxed.bits" => match route {
            "" => val1(u32v(x.bits())),
            ".trait" => val1(u32v(BitOps::bits(&x))),
            _ => None,
        },
        "boxed.bits_vartime" => match route {
            "" => val1(u32v(x.bits_vartime())),
            ".trait" => val1(u32v(BitOps::bits_vartime(&x))),
            _ => None,
        },
        "boxed.leading_zeros" => match route {
            "" => val1(u32v(x.leading_zeros())),
            ".trait" => val1(u32v(BitOps::leading_zeros(&x))),
            _ => None,
        },
        "boxed.leading_zeros_vartime" => val1(u32v(BitOps::leading_zeros_vartime(&x))),
        "boxed.trailing_zeros" => match route {
            "" => val1(u32v(x.trailing_zeros())),
            ".trait" => val1(u32v(BitOps::trailing_zeros(&x))),
            _ => None,
        },
        "boxed.trailing_zeros_vartime" => match route {
            "" => val1(u32v(x.trailing_zeros_vartime())),
            ".trait" => val1(u32v(BitOps::trailing_zeros_vartime(&x))),
            _ => None,
        },
        "boxed.trailing_ones" => match route {
            "" => val1(u32v(x.trailing_ones())),
            ".trait" => val1(u32v(BitOps::trailing_ones(&x))),
            _ => None,
        },
        "boxed.trailing_ones_vartime" => match route {
            "" => val1(u32v(x.trailing_ones_vartime())),
            ".trait" => val1(u32v(BitOps::trailing_ones_vartime(&x))),
            _ => None,
        },
        "boxed.set_bit" => { let mut r = x; BitOps::set_bit(&mut r, s_u32(a, 1)?, choice(sc(a, 2))); val1(bv(&r)) }
        "boxed.set_bit_vartime" => { let mut r = x; BitOps::set_bit_vartime(&mut r, s_u32(a, 1)?, sc(a, 2) != 0); val1(bv(&r)) }
        // bitwise
        "boxed.not" => match route {
            "" => val1(bv(&x.not())),
            ".op" => val1(bv(&!x)),
            ".wrapper" => val1(bv(&(!Wrapping(x)).0)),
            _ => None,
        },
        "boxed.and_limb" => val1(bv(&x.bitand_limb(Limb(sc(a, 1))))),
        "boxed.and" => bitwise_routes!(route, x, bx(ar(a, 1)), bitand, wrapping_and, checked_and, &, &=, bv, ck_ct(bv)),
        "boxed.or" => bitwise_routes!(route, x, bx(ar(a, 1)), bitor, wrapping_or, checked_or, |, |=, bv, ck_ct(bv)),
        "boxed.xor" => bitwise_routes!(route, x, bx(ar(a, 1)), bitxor, wrapping_xor, checked_xor, ^, ^=, bv, ck_ct(bv)),
        _ => None,
    }
}

pub fn run(op: &str, a: &Args) -> Option<Out> {
    if !OPS.contains(&op) {
        return None;
    }
    let _ = SHIFT_PANIC_ROUTES;
    if op.starts_with("limb.") {
        limb_ops(op, a)
    } else if op.starts_with("uint.") {
        with_n!(ar(a, 0).len(), [1, 2, 3, 4, 5, 6, 7, 8, 12, 16], uint_ops, op, a)
    } else if op.starts_with("int.") {
        with_n!(ar(a, 0).len(), [1, 2, 3, 4, 5, 6, 7, 8, 12, 16], int_ops, op, a)
    } else if op.starts_with("boxed.") {
        boxed_ops(op, a)
    } else {
        None
    }
}
