//! C14 adapters: signed division `Int<N>` by `Int` / `Uint` — truncating, flooring, normalized
//! remainder; constant-time and `_vartime` (mixed widths); operators `/ % /= %=` on `Int`,
//! `Wrapping<Int>`, `Checked<Int>`; `CheckedDiv`, `DivVartime`.
use crate::util::*;
use crypto_bigint::{Checked, CheckedDiv, DivVartime, Int, NonZero, Uint, Wrapping};

pub const OPS: &[&str] = &[
    "sdiv.checked_div",
    "sdiv.checked_div.op",
    "sdiv.checked_div.op_rr",
    "sdiv.checked_div.op_rv",
    "sdiv.checked_div.op_vr",
    "sdiv.checked_div.trait",
    "sdiv.checked_div.vartime",
    "sdiv.checked_div.wrapper",
    "sdiv.checked_div.wrapper_rr",
    "sdiv.checked_div.wrapper_rv",
    "sdiv.checked_div.wrapper_vr",
    "sdiv.checked_div_floor",
    "sdiv.checked_div_floor.vartime",
    "sdiv.checked_div_rem",
    "sdiv.checked_div_rem.vartime",
    "sdiv.checked_div_rem_floor",
    "sdiv.checked_div_rem_floor.vartime",
    "sdiv.div_expect.assign",
    "sdiv.div_expect.assign_ref",
    "sdiv.div_expect.div_vartime",
    "sdiv.div_expect.wrapping",
    "sdiv.div_expect.wrapping_assign",
    "sdiv.div_expect.wrapping_assign_ref",
    "sdiv.div_expect.wrapping_rr",
    "sdiv.div_expect.wrapping_rv",
    "sdiv.div_expect.wrapping_vr",
    "sdiv.div_floor_uint",
    "sdiv.div_floor_uint.vartime",
    "sdiv.div_rem_floor_uint",
    "sdiv.div_rem_floor_uint.vartime",
    "sdiv.div_rem_uint",
    "sdiv.div_rem_uint.vartime",
    "sdiv.div_uint",
    "sdiv.div_uint.assign",
    "sdiv.div_uint.assign_ref",
    "sdiv.div_uint.op",
    "sdiv.div_uint.op_rr",
    "sdiv.div_uint.op_rv",
    "sdiv.div_uint.op_vr",
    "sdiv.div_uint.vartime",
    "sdiv.div_uint.wrapping",
    "sdiv.div_uint.wrapping_assign",
    "sdiv.div_uint.wrapping_assign_ref",
    "sdiv.div_uint.wrapping_rr",
    "sdiv.div_uint.wrapping_rv",
    "sdiv.div_uint.wrapping_vr",
    "sdiv.normalized_rem",
    "sdiv.normalized_rem.vartime",
    "sdiv.rem",
    "sdiv.rem.assign",
    "sdiv.rem.assign_ref",
    "sdiv.rem.op",
    "sdiv.rem.op_rr",
    "sdiv.rem.op_rv",
    "sdiv.rem.op_vr",
    "sdiv.rem.vartime",
    "sdiv.rem.wrapping",
    "sdiv.rem.wrapping_assign",
    "sdiv.rem.wrapping_assign_ref",
    "sdiv.rem.wrapping_rr",
    "sdiv.rem.wrapping_rv",
    "sdiv.rem.wrapping_vr",
    "sdiv.rem_uint",
    "sdiv.rem_uint.assign",
    "sdiv.rem_uint.assign_ref",
    "sdiv.rem_uint.op",
    "sdiv.rem_uint.op_rr",
    "sdiv.rem_uint.op_rv",
    "sdiv.rem_uint.op_vr",
    "sdiv.rem_uint.vartime",
    "sdiv.rem_uint.wrapping",
    "sdiv.rem_uint.wrapping_assign",
    "sdiv.rem_uint.wrapping_assign_ref",
    "sdiv.rem_uint.wrapping_rr",
    "sdiv.rem_uint.wrapping_rv",
    "sdiv.rem_uint.wrapping_vr",
];

macro_rules! with_lr {
    ($l:expr, $r:expr, $f:ident, $op:expr, $a:expr) => {
        match $l {
            1 => with_lr!(@r 1, $r, $f, $op, $a),
            2 => with_lr!(@r 2, $r, $f, $op, $a),
            3 => with_lr!(@r 3, $r, $f, $op, $a),
            4 => with_lr!(@r 4, $r, $f, $op, $a),
            8 => with_lr!(@r 8, $r, $f, $op, $a),
            _ => None,
        }
    };
    (@r $L:literal, $r:expr, $f:ident, $op:expr, $a:expr) => {
        match $r {
            1 => $f::<$L, 1>($op, $a),
            2 => $f::<$L, 2>($op, $a),
            3 => $f::<$L, 3>($op, $a),
            4 => $f::<$L, 4>($op, $a),
            8 => $f::<$L, 8>($op, $a),
            _ => None,
        }
    };
}

fn iopt<const N: usize>(o: subtle::CtOption<Int<N>>) -> Option<Out> {
    ctopt(o, iv)
}

/// (ConstCtOption<quotient>, remainder) -> [[is_some]; quotient or empty; remainder]
fn optq_r<const L: usize, const R: usize>(q: crypto_bigint::ConstCtOption<Int<L>>, r: Int<R>) -> Option<Out> {
    let q: Option<Int<L>> = q.into();
    Some(Out::Val(match q {
        Some(q) => vec![vec![1], iv(&q), iv(&r)],
        None => vec![vec![0], vec![], iv(&r)],
    }))
}

/// divisor must be non-zero for the forms that take NonZero<..>; the generator never sends zero there
fn nzi<const N: usize>(v: &[u64]) -> NonZero<Int<N>> {
    NonZero::new(si::<N>(v)).expect("harness: zero divisor for a NonZero form")
}
fn nzu<const N: usize>(v: &[u64]) -> NonZero<Uint<N>> {
    NonZero::new(u::<N>(v)).expect("harness: zero divisor for a NonZero form")
}

/// same-width forms
fn same<const N: usize>(op: &str, a: &Args) -> Option<Out> {
    let x: Int<N> = si(ar(a, 0));
    // forms taking a plain Int divisor (zero allowed)
    match op {
        "sdiv.checked_div" => return iopt(x.checked_div(&si::<N>(ar(a, 1)))),
        "sdiv.checked_div.trait" => return iopt(CheckedDiv::checked_div(&x, &si::<N>(ar(a, 1)))),
        "sdiv.checked_div.vartime" => return iopt(x.checked_div_vartime(&si::<N>(ar(a, 1)))),
        "sdiv.checked_div_floor" => return iopt(x.checked_div_floor(&si::<N>(ar(a, 1)))),
        "sdiv.checked_div_floor.vartime" => return iopt(x.checked_div_floor_vartime(&si::<N>(ar(a, 1)))),
        "sdiv.checked_div.wrapper" => return iopt((Checked::new(x) / Checked::new(si::<N>(ar(a, 1)))).0),
        "sdiv.checked_div.wrapper_vr" => return iopt((Checked::new(x) / &Checked::new(si::<N>(ar(a, 1)))).0),
        "sdiv.checked_div.wrapper_rv" => return iopt((&Checked::new(x) / Checked::new(si::<N>(ar(a, 1)))).0),
        "sdiv.checked_div.wrapper_rr" => return iopt((&Checked::new(x) / &Checked::new(si::<N>(ar(a, 1)))).0),
        _ => {}
    }
    if op.contains("_uint") || op.starts_with("sdiv.normalized_rem") {
        let d: NonZero<Uint<N>> = nzu(ar(a, 1));
        return match op {
            "sdiv.div_rem_uint" => { let (q, r) = x.div_rem_uint(&d); val2(iv(&q), iv(&r)) }
            "sdiv.div_rem_uint.vartime" => { let (q, r) = x.div_rem_uint_vartime(&d); val2(iv(&q), iv(&r)) }
            "sdiv.div_uint" => val1(iv(&x.div_uint(&d))),
            "sdiv.div_uint.vartime" => val1(iv(&x.div_uint_vartime(&d))),
            "sdiv.div_uint.op" => val1(iv(&(x / d))),
            "sdiv.div_uint.op_vr" => val1(iv(&(x / &d))),
            "sdiv.div_uint.op_rv" => val1(iv(&(&x / d))),
            "sdiv.div_uint.op_rr" => val1(iv(&(&x / &d))),
            "sdiv.div_uint.assign" => { let mut r = x; r /= d; val1(iv(&r)) }
            "sdiv.div_uint.assign_ref" => { let mut r = x; r /= &d; val1(iv(&r)) }
            "sdiv.div_uint.wrapping" => val1(iv(&(Wrapping(x) / d).0)),
            "sdiv.div_uint.wrapping_vr" => val1(iv(&(Wrapping(x) / &d).0)),
            "sdiv.div_uint.wrapping_rv" => val1(iv(&(&Wrapping(x) / d).0)),
            "sdiv.div_uint.wrapping_rr" => val1(iv(&(&Wrapping(x) / &d).0)),
            "sdiv.div_uint.wrapping_assign" => { let mut w = Wrapping(x); w /= d; val1(iv(&w.0)) }
            "sdiv.div_uint.wrapping_assign_ref" => { let mut w = Wrapping(x); w /= &d; val1(iv(&w.0)) }
            "sdiv.rem_uint" => val1(iv(&x.rem_uint(&d))),
            "sdiv.rem_uint.vartime" => val1(iv(&x.rem_uint_vartime(&d))),
            "sdiv.rem_uint.op" => val1(iv(&(x % d))),
            "sdiv.rem_uint.op_vr" => val1(iv(&(x % &d))),
            "sdiv.rem_uint.op_rv" => val1(iv(&(&x % d))),
            "sdiv.rem_uint.op_rr" => val1(iv(&(&x % &d))),
            "sdiv.rem_uint.assign" => { let mut r = x; r %= d; val1(iv(&r)) }
            "sdiv.rem_uint.assign_ref" => { let mut r = x; r %= &d; val1(iv(&r)) }
            "sdiv.rem_uint.wrapping" => val1(iv(&(Wrapping(x) % d).0)),
            "sdiv.rem_uint.wrapping_vr" => val1(iv(&(Wrapping(x) % &d).0)),
            "sdiv.rem_uint.wrapping_rv" => val1(iv(&(&Wrapping(x) % d).0)),
            "sdiv.rem_uint.wrapping_rr" => val1(iv(&(&Wrapping(x) % &d).0)),
            "sdiv.rem_uint.wrapping_assign" => { let mut w = Wrapping(x); w %= d; val1(iv(&w.0)) }
            "sdiv.rem_uint.wrapping_assign_ref" => { let mut w = Wrapping(x); w %= &d; val1(iv(&w.0)) }
            "sdiv.div_rem_floor_uint" => { let (q, r) = x.div_rem_floor_uint(&d); val2(iv(&q), uv(&r)) }
            "sdiv.div_rem_floor_uint.vartime" => { let (q, r) = x.div_rem_floor_uint_vartime(&d); val2(iv(&q), uv(&r)) }
            "sdiv.div_floor_uint" => val1(iv(&x.div_floor_uint(&d))),
            "sdiv.div_floor_uint.vartime" => val1(iv(&x.div_floor_uint_vartime(&d))),
            "sdiv.normalized_rem" => val1(uv(&x.normalized_rem(&d))),
            "sdiv.normalized_rem.vartime" => val1(uv(&x.normalized_rem_vartime(&d))),
            _ => None,
        };
    }
    let d: NonZero<Int<N>> = nzi(ar(a, 1));
    match op {
        "sdiv.checked_div_rem" => { let (q, r) = x.checked_div_rem(&d); optq_r(q, r) }
        "sdiv.checked_div_rem.vartime" => { let (q, r) = x.checked_div_rem_vartime(&d); optq_r(q, r) }
        "sdiv.checked_div_rem_floor" => { let (q, r) = x.checked_div_rem_floor(&d); optq_r(q, r) }
        "sdiv.checked_div_rem_floor.vartime" => { let (q, r) = x.checked_div_rem_floor_vartime(&d); optq_r(q, r) }
        "sdiv.checked_div.op" => iopt(x / d),
        "sdiv.checked_div.op_vr" => iopt(x / &d),
        "sdiv.checked_div.op_rv" => iopt(&x / d),
        "sdiv.checked_div.op_rr" => iopt(&x / &d),
        "sdiv.rem" => val1(iv(&Int::rem(&x, &d))),
        "sdiv.rem.vartime" => val1(iv(&x.rem_vartime(&d))),
        "sdiv.rem.op" => val1(iv(&(x % d))),
        "sdiv.rem.op_vr" => val1(iv(&(x % &d))),
        "sdiv.rem.op_rv" => val1(iv(&(&x % d))),
        "sdiv.rem.op_rr" => val1(iv(&(&x % &d))),
        "sdiv.rem.assign" => { let mut r = x; r %= d; val1(iv(&r)) }
        "sdiv.rem.assign_ref" => { let mut r = x; r %= &d; val1(iv(&r)) }
        "sdiv.rem.wrapping" => val1(iv(&(Wrapping(x) % d).0)),
        "sdiv.rem.wrapping_vr" => val1(iv(&(Wrapping(x) % &d).0)),
        "sdiv.rem.wrapping_rv" => val1(iv(&(&Wrapping(x) % d).0)),
        "sdiv.rem.wrapping_rr" => val1(iv(&(&Wrapping(x) % &d).0)),
        "sdiv.rem.wrapping_assign" => { let mut w = Wrapping(x); w %= d; val1(iv(&w.0)) }
        "sdiv.rem.wrapping_assign_ref" => { let mut w = Wrapping(x); w %= &d; val1(iv(&w.0)) }
        "sdiv.div_expect.div_vartime" => val1(iv(&DivVartime::div_vartime(&x, &d))),
        "sdiv.div_expect.assign" => { let mut r = x; r /= d; val1(iv(&r)) }
        "sdiv.div_expect.assign_ref" => { let mut r = x; r /= &d; val1(iv(&r)) }
        "sdiv.div_expect.wrapping" => val1(iv(&(Wrapping(x) / d).0)),
        "sdiv.div_expect.wrapping_vr" => val1(iv(&(Wrapping(x) / &d).0)),
        "sdiv.div_expect.wrapping_rv" => val1(iv(&(&Wrapping(x) / d).0)),
        "sdiv.div_expect.wrapping_rr" => val1(iv(&(&Wrapping(x) / &d).0)),
        "sdiv.div_expect.wrapping_assign" => { let mut w = Wrapping(x); w /= d; val1(iv(&w.0)) }
        "sdiv.div_expect.wrapping_assign_ref" => { let mut w = Wrapping(x); w /= &d; val1(iv(&w.0)) }
        _ => None,
    }
}

/// mixed-width `_vartime` forms: Int<L> by Int<R> / Uint<R>
fn mixed<const L: usize, const R: usize>(op: &str, a: &Args) -> Option<Out> {
    let x: Int<L> = si(ar(a, 0));
    match op {
        "sdiv.checked_div.vartime" => return iopt(x.checked_div_vartime(&si::<R>(ar(a, 1)))),
        "sdiv.checked_div_floor.vartime" => return iopt(x.checked_div_floor_vartime(&si::<R>(ar(a, 1)))),
        _ => {}
    }
    if op.contains("_uint") || op.starts_with("sdiv.normalized_rem") {
        let d: NonZero<Uint<R>> = nzu(ar(a, 1));
        return match op {
            "sdiv.div_rem_uint.vartime" => { let (q, r) = x.div_rem_uint_vartime(&d); val2(iv(&q), iv(&r)) }
            "sdiv.div_uint.vartime" => val1(iv(&x.div_uint_vartime(&d))),
            "sdiv.rem_uint.vartime" => val1(iv(&x.rem_uint_vartime(&d))),
            "sdiv.div_rem_floor_uint.vartime" => { let (q, r) = x.div_rem_floor_uint_vartime(&d); val2(iv(&q), uv(&r)) }
            "sdiv.div_floor_uint.vartime" => val1(iv(&x.div_floor_uint_vartime(&d))),
            "sdiv.normalized_rem.vartime" => val1(uv(&x.normalized_rem_vartime(&d))),
            _ => None,
        };
    }
    let d: NonZero<Int<R>> = nzi(ar(a, 1));
    match op {
        "sdiv.checked_div_rem.vartime" => { let (q, r) = x.checked_div_rem_vartime(&d); optq_r(q, r) }
        "sdiv.checked_div_rem_floor.vartime" => { let (q, r) = x.checked_div_rem_floor_vartime(&d); optq_r(q, r) }
        "sdiv.rem.vartime" => val1(iv(&x.rem_vartime(&d))),
        _ => None,
    }
}

pub fn run(op: &str, a: &Args) -> Option<Out> {
    if !OPS.contains(&op) {
        return None;
    }
    let (l, r) = (ar(a, 0).len(), ar(a, 1).len());
    if l == r {
        with_n!(l, [1, 2, 3, 4, 8], same, op, a)
    } else {
        with_lr!(l, r, mixed, op, a)
    }
}
