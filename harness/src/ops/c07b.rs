//! C07 adapters, part 2: modular halving. The kernels `modular::div_by_2::{div_by_2, div_by_2_boxed_assign}` are
//! crate-private; they are reached, with the Montgomery representative passed through unchanged, by
//! `MontyForm::from_montgomery(a, params).div_by_2().as_montgomery()` and the boxed counterparts.
use crate::util::*;
use crypto_bigint::modular::{BoxedMontyForm, BoxedMontyParams, MontyForm, MontyParams};
use crypto_bigint::{Odd, Uint};

pub const OPS: &[&str] = &[
    "uint.div_by_2", "boxed.div_by_2", "boxed.div_by_2.assign", "boxed.div_by_2.params_ct",
];

fn uint_ops<const N: usize>(op: &str, a: &Args) -> Option<Out> {
    let x: Uint<N> = u(ar(a, 0));
    let m: Odd<Uint<N>> = Option::from(Odd::new(u::<N>(ar(a, 1)))).expect("harness: even modulus");
    if op != "uint.div_by_2" { return None; }
    let params = MontyParams::new_vartime(m);
    let f = MontyForm::from_montgomery(x, params);
    val1(uv(f.div_by_2().as_montgomery()))
}

fn boxed_ops(op: &str, a: &Args) -> Option<Out> {
    let x = bx(ar(a, 0));
    let m: Odd<crypto_bigint::BoxedUint> = Option::from(Odd::new(bx(ar(a, 1)))).expect("harness: even modulus");
    let params = match op {
        "boxed.div_by_2.params_ct" => BoxedMontyParams::new(m),
        _ => BoxedMontyParams::new_vartime(m),
    };
    let f = BoxedMontyForm::from_montgomery(x, params);
    match op {
        "boxed.div_by_2" | "boxed.div_by_2.params_ct" => val1(bv(f.div_by_2().as_montgomery())),
        "boxed.div_by_2.assign" => { let mut g = f; g.div_by_2_assign(); val1(bv(g.as_montgomery())) }
        _ => None,
    }
}

pub fn run(op: &str, a: &Args) -> Option<Out> {
    if op.starts_with("boxed.") { return boxed_ops(op, a); }
    with_n!(ar(a, 0).len(), [1, 2, 3, 4, 6, 8, 12, 16], uint_ops, op, a)
}
