//! C17 adapters: radix strings of Uint<N> and BoxedUint (parse and format, radix as a u32 scalar).
//! A string travels as one byte value per word; a returned string is the list of its bytes.
//!   uint.from_str_radix[.num]      args: string ; radix ; LIMBS
//!   boxed.from_str_radix           args: string ; radix
//!   boxed.from_str_radix_prec      args: string ; radix ; bits_precision
//!   uint.to_string_radix           args: limbs ; radix
//!   boxed.to_string_radix          args: limbs ; radix
//!   uint.radix_roundtrip[.num]     args: limbs ; radix      (format, parse back at the same width)
//!   boxed.radix_roundtrip          args: limbs ; radix      (format, parse back with the same precision)
use crate::util::*;
use crypto_bigint::{BoxedUint, DecodeError, Uint};

pub const OPS: &[&str] = &[
    "uint.from_str_radix",
    "uint.from_str_radix.num",
    "boxed.from_str_radix",
    "boxed.from_str_radix_prec",
    "uint.to_string_radix",
    "boxed.to_string_radix",
    "uint.radix_roundtrip",
    "uint.radix_roundtrip.num",
    "boxed.radix_roundtrip",
];

fn st(a: &Args, i: usize) -> String {
    let b: Vec<u8> = ar(a, i)
        .iter()
        .map(|&w| {
            assert!(w < 256, "harness: byte argument out of range");
            w as u8
        })
        .collect();
    String::from_utf8(b).expect("harness: string argument is not valid UTF-8")
}
fn so(s: &str) -> Vec<u64> {
    s.as_bytes().iter().map(|&x| x as u64).collect()
}
fn derr(e: DecodeError) -> Option<Out> {
    Some(Out::Err(match e {
        DecodeError::Empty => 0,
        DecodeError::InvalidDigit => 1,
        DecodeError::InputSize => 2,
        DecodeError::Precision => 3,
    }))
}
fn radix(a: &Args, i: usize) -> u32 {
    let r = sc(a, i);
    assert!(r <= u32::MAX as u64, "harness: radix out of the u32 range");
    r as u32
}

fn uint_parse<const N: usize>(op: &str, a: &Args) -> Option<Out> {
    let s = st(a, 0);
    let r = radix(a, 1);
    let res = match op {
        "uint.from_str_radix" => Uint::<N>::from_str_radix_vartime(&s, r),
        "uint.from_str_radix.num" => <Uint<N> as num_traits::Num>::from_str_radix(&s, r),
        _ => return None,
    };
    match res {
        Ok(x) => val1(uv(&x)),
        Err(e) => derr(e),
    }
}

fn uint_fmt<const N: usize>(op: &str, a: &Args) -> Option<Out> {
    let x: Uint<N> = u::<N>(ar(a, 0));
    let r = radix(a, 1);
    match op {
        "uint.to_string_radix" => val1(so(&x.to_string_radix_vartime(r))),
        "uint.radix_roundtrip" => match Uint::<N>::from_str_radix_vartime(&x.to_string_radix_vartime(r), r) {
            Ok(y) => val1(uv(&y)),
            Err(e) => derr(e),
        },
        "uint.radix_roundtrip.num" => {
            match <Uint<N> as num_traits::Num>::from_str_radix(&x.to_string_radix_vartime(r), r) {
                Ok(y) => val1(uv(&y)),
                Err(e) => derr(e),
            }
        }
        _ => None,
    }
}

pub fn run(op: &str, a: &Args) -> Option<Out> {
    match op {
        "uint.from_str_radix" | "uint.from_str_radix.num" => {
            with_n!(sc(a, 2) as usize, [1, 2, 3, 4, 8, 16, 32, 33, 40], uint_parse, op, a)
        }
        "uint.to_string_radix" | "uint.radix_roundtrip" | "uint.radix_roundtrip.num" => {
            with_n!(ar(a, 0).len(), [1, 2, 3, 4, 8, 16, 32, 33, 40, 63], uint_fmt, op, a)
        }
        "boxed.from_str_radix" => match BoxedUint::from_str_radix_vartime(&st(a, 0), radix(a, 1)) {
            Ok(x) => val1(bv(&x)),
            Err(e) => derr(e),
        },
        "boxed.from_str_radix_prec" => {
            let p = sc(a, 2);
            assert!(p <= 1 << 20, "harness: precision too large for a test");
            match BoxedUint::from_str_radix_with_precision_vartime(&st(a, 0), radix(a, 1), p as u32) {
                Ok(x) => val1(bv(&x)),
                Err(e) => derr(e),
            }
        }
        "boxed.to_string_radix" => val1(so(&bx(ar(a, 0)).to_string_radix_vartime(radix(a, 1)))),
        "boxed.radix_roundtrip" => {
            let x = bx(ar(a, 0));
            let r = radix(a, 1);
            match BoxedUint::from_str_radix_with_precision_vartime(
                &x.to_string_radix_vartime(r),
                r,
                x.bits_precision(),
            ) {
                Ok(y) => val1(bv(&y)),
                Err(e) => derr(e),
            }
        }
        _ => None,
    }
}
